#!/bin/bash
# Offline setup: make sure hypothesis is importable by /venv's python (the repository's own interpreter),
# and install atheris + jsonschema next to the harness (optional, used when present).
set -u
HERE="$(cd "$(dirname "${BASH_SOURCE[0]}")" && pwd)"
PY=/venv/bin/python
WH=/opt/veriftools/wheels
export PIP_NO_INDEX=1
if ! $PY -c 'import hypothesis' 2>/dev/null; then
  /venv/bin/pip install --no-index --find-links "$WH" hypothesis || exit 1
fi
mkdir -p "$HERE/.deps"
if ! PYTHONPATH="$HERE/.deps" $PY -c 'import atheris' 2>/dev/null; then
  /venv/bin/pip install --no-index --find-links "$WH" --target "$HERE/.deps" atheris >/dev/null 2>&1 || echo "note: atheris not installable; fuzz campaigns will be skipped"
fi
if ! PYTHONPATH="$HERE/.deps" $PY -c 'import jsonschema' 2>/dev/null; then
  /venv/bin/pip install --no-index --find-links "$WH" --target "$HERE/.deps" jsonschema >/dev/null 2>&1 || echo "note: jsonschema not installable; built-in structural validation is used"
fi
cd "$HERE" && PYTHONPATH="${NIMA_REPO:-/repo}:$HERE:$HERE/.deps" $PY -B -m vf.selftest || exit 1
echo "setup ok"
