#!/venv/bin/python
"""Development tool: find the depth families of C20 that are super-polynomial on the current tree and write
quarantine/C20.json (rows name finding F03: preview rendering that evaluates a child twice per level).
usage: PYTHONPATH=/repo:/verif tools/discover_c20.py"""
import json, os, sys, time
from multiprocessing import Pool

sys.path.insert(0, os.path.join(os.path.dirname(os.path.abspath(__file__)), ".."))
from vf.props import c20  # noqa: E402

DEPTHS = [3, 4, 5, 6, 8, 12]


def run(name):
    rows = []
    for d in DEPTHS:
        try:
            fails, detail = c20.family_check(name, d)
        except Exception as e:  # noqa: BLE001
            rows.append((d, "error:" + repr(e)[:80], None))
            continue
        if fails is None:
            continue
        kinds = [k for k, _ in fails]
        ratio = detail["work_2d"] / max(detail["work_d"], 1)
        rows.append((d, kinds, round(ratio, 1)))
    return name, rows


if __name__ == "__main__":
    t0 = time.time()
    names = sorted(c20.FAMILIES)
    with Pool(15) as p:
        res = p.map(run, names, chunksize=2)
    entries = []
    crashes = []
    for name, rows in res:
        bad = [(d, k, r) for d, k, r in rows if k]
        if any(isinstance(k, str) or any(x != "superpolynomial" for x in k) for _d, k, _r in bad):
            crashes.append((name, bad))
        sp = [(d, r) for d, k, r in bad if not isinstance(k, str) and "superpolynomial" in k]
        if sp:
            entries.append({"family": name, "finding": "F03", "by": "family", "fails_at": [d for d, _ in sp], "max_ratio": max(r for _, r in sp)})
    doc = {"property": "C20", "generated_by": "tools/discover_c20.py (every family at depths 3-6 on the current tree)", "families_tried": len(names), "entries": entries}
    with open(os.path.join(os.path.dirname(os.path.abspath(__file__)), "..", "quarantine", "C20.json"), "w") as fh:
        json.dump(doc, fh, indent=1)
    print(f"{len(names)} families, {len(entries)} super-polynomial, {len(crashes)} other failures, {time.time() - t0:.0f}s")
    for c in crashes:
        print("OTHER", c)
