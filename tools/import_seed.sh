#!/bin/bash
# usage: tools/import_seed2.sh Cxx   (development tool: copies round-2 sub-agent results into seeded/, verifies, drills)
cd "$(dirname "$0")/.." || exit 2
p=$1
for d in ${SRC:-/tmp/seed3/out}/$p/mut*; do
  [ -f $d/patch.diff ] || continue
  n=$(basename $d); m=$p-${TAG:-s3}${n#mut}
  mkdir -p seeded/$m; cp $d/patch.diff $d/meta.json seeded/$m/; cp $d/demo.py seeded/$m/demo.py 2>/dev/null || cp $d/demo* seeded/$m/
  sed -i "s#${WT:-/tmp/seed3}/$p#/repo#g" seeded/$m/demo.py
  v=$(tools/verify_seeded.sh $m); echo "$v"
  case "$v" in *"apply=ok demo_pre=0 baseline_rc=0 demo_post=1"*)
    /venv/bin/python - seeded/$m/meta.json "$(git -C /repo rev-parse --short HEAD)" <<'PY'
import json,sys
p=sys.argv[1]; m=json.load(open(p))
m["verified_by_me"]={"at_repo_head":sys.argv[2],"steps":"fresh worktree of /repo HEAD; demo.py exit 0 before patch; git apply patch.diff ok; /root/.vp baseline 340/340 stable tests pass with patch; demo.py exit 1 with patch; worktree removed","command":"tools/verify_seeded.sh"}
m["origin"]="independent sub-agent (round ${TAG:-s3}) given only the property text and a scratch worktree"
json.dump(m,open(p,"w"),indent=1)
PY
    tools/drill.sh $m;; *) echo "$m NOT-VERIFIED";; esac
done
