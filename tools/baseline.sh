#!/bin/bash
# usage: tools/baseline.sh [repo dir]   (development tool: runs the pinned baseline, prints passed/stable counts and missing tests)
wt=${1:-/repo}
/venv/bin/python - "$wt" <<'PY'
import json, os, subprocess, sys, tempfile, xml.etree.ElementTree as ET
wt=sys.argv[1]; base=json.load(open('/root/.vp/BASELINE.json')); stable=set(base['stable_pass'])
with tempfile.TemporaryDirectory() as td:
    x=os.path.join(td,'j.xml')
    subprocess.run(['/venv/bin/python','-m','pytest','-q','-p','no:cacheprovider','--timeout=900','--continue-on-collection-errors','-n','8',f'--junitxml={x}'],cwd=wt,env=dict(os.environ,PYTHONPATH=wt,PYTHONDONTWRITEBYTECODE='1'),stdout=subprocess.DEVNULL,stderr=subprocess.DEVNULL)
    passed={f"{tc.get('classname')}::{tc.get('name')}" for tc in ET.parse(x).getroot().iter('testcase') if not any(ch.tag in ('failure','error','skipped') for ch in tc)}
missing=sorted(stable-passed)
print(f"baseline {len(stable&passed)}/{len(stable)}")
for m in missing: print("  MISSING", m)
sys.exit(0 if not missing else 1)
PY
