#!/bin/bash
# usage: tools/drill.sh <seeded dir name> [check id ...]   (development tool: runs checks against a seeded mutant in a scratch worktree)
# Prints: <mutant> <check> exit=<rc> [first violation signature]
cd "$(dirname "$0")/.." || exit 2
m=$1; shift
prop=${m%%-*}
checks="${@:-$prop}"
wt=$(mktemp -d /tmp/drill-XXXXXX); rmdir $wt
git -C /repo worktree add -q --detach $wt HEAD || exit 2
if ! git -C $wt apply /verif/seeded/$m/patch.diff 2>/dev/null; then echo "$m PATCH-DOES-NOT-APPLY"; git -C /repo worktree remove --force $wt; exit 0; fi
for c in $checks; do
  out=$(mktemp -d /tmp/drillout-XXXXXX)
  log=$(NIMA_REPO=$wt VERIF_PROCS=${VERIF_PROCS:-8} ./check $c --out $out 2>&1); rc=$?
  sig=$(echo "$log" | grep -m1 "signature:" | cut -c1-150)
  echo "$m $c exit=$rc $sig"
  rm -rf $out
done
git -C /repo worktree remove --force $wt
