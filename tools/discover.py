"""Development tool (never run by a check): single-gap discovery campaign.

For every generated program, one gap (stratified by label) is perturbed with one trivia class and the
property's oracle is evaluated.  Output: quarantine/<ID>.discovered.json with, per (label, family) pair that
failed at least once: counts, failure kinds and the smallest failing example.  Base programs that fail
without any perturbation are listed separately with their minimised shape signature.
"""
import json, os, random, sys, time, multiprocessing as mp
from collections import Counter, defaultdict

sys.path.insert(0, os.path.dirname(os.path.dirname(os.path.abspath(__file__))))
from vf import cst, minimise
from vf.gen import grammar as G, trivia as T


def _gen_kw(pid):
    """The generator switches the check itself runs with (open findings that exclude a construct by construction)."""
    from vf import runner
    q = runner.quarantine_for(pid)
    return {"empty_let": not any(x.get("gen", {}).get("empty_let") is False for x in q), "merge_pairs": not any(x.get("gen", {}).get("merge_pairs") is False for x in q)}


class _Kw(dict):
    def __missing__(self, pid):
        self[pid] = _gen_kw(pid)
        return self[pid]


GEN_KW = _Kw()


def work(args):
    pid, lo, hi = args
    import importlib
    mod = importlib.import_module(f"vf.props.{pid.lower()}")
    cfg = mod.CFG
    pair_tot = Counter(); pair_fail = Counter(); examples = {}; kinds = defaultdict(Counter)
    base_fail = {}; base_tot = 0; n = 0
    for s in range(lo, hi):
        ast, base, broken = G.program(s, include_uri=cfg.include_uri, **GEN_KW[pid])
        if not cst.env_ok(base):
            continue
        bt = cst.parse(base)
        if bt.root.has_error:
            continue
        r = random.Random(s * 7919 + 13)
        # base evaluation (every 4th program) ---------------------------------
        if s % 4 == 0:
            base_tot += 1
            st, fl = cfg.check(base, bt)
            if st != "refused" and fl:
                for kind in {k for k, _ in fl}:
                    def ast_fails(a, kind=kind):
                        t = G.render(a, broken)
                        tr = cst.parse(t)
                        if tr.root.has_error or not cst.env_ok(t): return False
                        s2, f2 = cfg.check(t, tr)
                        return kind in {k for k, _ in f2}
                    small = minimise.shrink_ast(ast, ast_fails, max_calls=200)
                    sig = f"{kind}|base|{'broken' if broken else 'flat'}|{','.join(sorted(G.productions(small)))}"
                    txt = G.render(small, broken)
                    if sig not in base_fail or len(txt) < len(base_fail[sig][1]):
                        base_fail[sig] = (base_fail.get(sig, (0, ""))[0] + 1, txt)
                    else:
                        base_fail[sig] = (base_fail[sig][0] + 1, base_fail[sig][1])
                continue  # perturbations of a failing base tell nothing
        gaps = [g for g in cst.code_gaps(bt) if (cfg.allow_string_interp or not g.in_interp_of_string) and (cfg.allow_attrpath or not g.in_attrpath)]
        if not gaps: continue
        by_label = defaultdict(list)
        for g in gaps: by_label[g.label].append(g)
        for _ in range(3):
            lab = r.choice(list(by_label)); g = r.choice(by_label[lab])
            cls = r.choice(cfg.classes)
            if cls == "none" and g.end == g.start: continue
            txt, nc = T.make_trivia(r, cls, "k0", T._indent_at(bt.src, g.start))
            if g.start == 0 and nc: txt = txt.lstrip(" \n\t")
            p = T.Perturbation(g.index, g.label, cls, txt, nc)
            new = T.apply(base, gaps, [p])
            nt = T.sound(bt, new, nc)
            if nt is None or not cst.env_ok(new): continue
            st, fl = cfg.check(new, nt)
            if st == "refused": continue
            key = (T.label_str(g.label), cls)
            pair_tot[key] += 1; n += 1
            if fl:
                # only attribute to the pair if the base itself passes
                st0, fl0 = cfg.check(base, bt)
                if fl0 and {k for k, _ in fl0} >= {k for k, _ in fl}:
                    pair_tot[key] -= 1; continue
                pair_fail[key] += 1
                for k, _ in fl: kinds[key][k] += 1
                if key not in examples or len(new) < len(examples[key]): examples[key] = new
    return pair_tot, pair_fail, examples, {k: dict(v) for k, v in kinds.items()}, base_fail, base_tot, n


def main():
    pid = sys.argv[1].upper(); total = int(sys.argv[2]) if len(sys.argv) > 2 else 200000
    start = int(sys.argv[3]) if len(sys.argv) > 3 else 10_000_000
    chunks = 64; per = total // chunks
    jobs = [(pid, start + i * per, start + (i + 1) * per) for i in range(chunks)]
    t0 = time.time()
    pair_tot = Counter(); pair_fail = Counter(); examples = {}; kinds = defaultdict(Counter); base_fail = {}; base_tot = 0; n = 0
    with mp.get_context("fork").Pool(16) as pool:
        for pt, pf, ex, kd, bf, btot, nn in pool.imap_unordered(work, jobs):
            pair_tot.update(pt); pair_fail.update(pf); base_tot += btot; n += nn
            for k, v in ex.items():
                if k not in examples or len(v) < len(examples[k]): examples[k] = v
            for k, v in kd.items(): kinds[k].update(v)
            for sig, (c, txt) in bf.items():
                if sig in base_fail:
                    c0, t0_ = base_fail[sig]; base_fail[sig] = (c0 + c, txt if len(txt) < len(t0_) else t0_)
                else: base_fail[sig] = (c, txt)
    out = {"property": pid, "evaluations": n, "base_programs": base_tot, "wall_s": round(time.time() - t0, 1),
           "pairs": [{"label": k[0], "cls": k[1], "family": T.FAMILY[k[1]], "fail": pair_fail[k], "total": pair_tot[k], "kinds": dict(kinds[k]), "example": examples[k]} for k in sorted(pair_fail)],
           "clean_pairs": len([k for k in pair_tot if not pair_fail[k]]),
           "base": [{"sig": s, "count": c, "example": t} for s, (c, t) in sorted(base_fail.items(), key=lambda kv: -kv[1][0])]}
    path = os.path.join(os.path.dirname(os.path.dirname(os.path.abspath(__file__))), "quarantine", f"{pid}.discovered.json")
    json.dump(out, open(path, "w"), indent=1, ensure_ascii=False)
    print(f"{pid}: {n} single-gap evals, {len(out['pairs'])} failing pairs / {len(pair_tot)} seen, {len(base_fail)} base signatures over {base_tot} base programs, {out['wall_s']}s -> {path}")

if __name__ == "__main__":
    main()
