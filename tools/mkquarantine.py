"""Development tool: turn quarantine/<ID>.discovered*.json (single-gap discovery campaigns) into the committed
quarantine table quarantine/<ID>.json.  Every failing (gap label, trivia family) pair is assigned to a known
finding by the rules below; pairs that match no rule go to the property's long-tail finding."""
import glob, json, os, re, sys
from collections import defaultdict

ROOT = os.path.dirname(os.path.dirname(os.path.abspath(__file__)))
sys.path.insert(0, ROOT)
from vf.gen import trivia as T

RULES = {
    "C01": [(r"attrpath/.*", "F02"), (r"source_code:[^/]*/\^/.*", "F01"), (r"source_code:let_expression/.*", "F26"), (r".*", "NEW")],
    "C03": [(r"attrpath/.*", "F02"), (r"select_expression/.*", "F14"), (r"let_expression/let/in", "F15"), (r"function_expression/.*@.*", "F16"),
            (r"(source_code:assert_expression|parenthesized_expression:assert_expression|assert_expression)/.*", "F17"),
            (r"(inherit|inherit_from|inherited_attrs)/.*", "F18"), (r"source_code:[^/]*/\^/.*", "F01"), (r".*", "F20")],
    "C06": [(r"attrpath/.*", "F02"), (r"source_code:[^/]*/\^/.*", "F01"), (r"let_expression/in/.*", "GEN:F15"),
            (r"(source_code|parenthesized_expression):let_expression/.*", "F26"), (r"select_expression/.*", "F14"),
            (r"(source_code|parenthesized_expression):assert_expression/.*", "F17"), (r".*", "NEW")],
    "C18": [(r"source_code:[^/]*/\^/.*", "F01"), (r"let_expression/in/.*", "GEN:F15"), (r"(inherit|inherit_from|inherited_attrs)/.*", "F18"),
            (r"(source_code|parenthesized_expression):let_expression/.*", "F26"), (r".*", "F22")],
}


def main():
    pid = sys.argv[1].upper()
    pairs = {}
    stats = []
    base = {}
    for path in sorted(glob.glob(os.path.join(ROOT, "quarantine", f"{pid}.discovered*.json"))):
        d = json.load(open(path))
        stats.append({"file": os.path.basename(path), "evaluations": d["evaluations"], "failing_pairs": len(d["pairs"]), "base_signatures": len(d["base"])})
        for p in d["pairs"]:
            key = (p["label"], T.FAMILY[p["cls"]])
            e = pairs.setdefault(key, {"fail": 0, "total": 0, "kinds": defaultdict(int), "example": None, "classes": set()})
            e["fail"] += p["fail"]; e["total"] += p["total"]; e["classes"].add(p["cls"])
            for k, c in p["kinds"].items(): e["kinds"][k] += c
            if e["example"] is None or len(p["example"]) < len(e["example"]): e["example"] = p["example"]
        for b in d["base"]:
            e = base.setdefault(b["sig"], {"count": 0, "example": b["example"]})
            e["count"] += b["count"]
            if len(b["example"]) < len(e["example"]): e["example"] = b["example"]
    entries = []
    by_finding = defaultdict(int)
    for (label, fam), e in sorted(pairs.items()):
        fid = next(f for rx, f in RULES[pid] if re.fullmatch(rx, label))
        by_finding[fid] += 1
        by = "label"
        if fid.startswith("GEN:"):
            # excluded through a generator switch of that finding (see known_findings.json), not through this row
            fid, by = fid[4:], "generator"
        entries.append({"label": label, "family": fam, "finding": fid, "by": by, "fail": e["fail"], "total": e["total"], "kinds": dict(e["kinds"]), "example": e["example"][:400]})
    out = {"property": pid, "generated_by": "tools/mkquarantine.py from single-gap discovery campaigns on the pinned tree + fix commits", "campaigns": stats,
           "entries": entries, "base_signatures": [{"sig": s, "count": e["count"], "example": e["example"][:300]} for s, e in sorted(base.items(), key=lambda kv: -kv[1]["count"])]}
    json.dump(out, open(os.path.join(ROOT, "quarantine", f"{pid}.json"), "w"), indent=1, ensure_ascii=False)
    print(pid, len(entries), "entries", dict(by_finding), "base", len(base))


if __name__ == "__main__":
    main()
