"""Regenerates MANIFEST.json from the table below (development tool)."""
import json, os
ROOT = os.path.dirname(os.path.dirname(os.path.abspath(__file__)))
props = [json.loads(l) for l in open(os.path.join(ROOT, "properties.jsonl"))]

TB = "tree-sitter-nix 0.1.0 (pinned) is the definition of valid Nix, with the trailing-comma tolerance of DESIGN 2.2; inputs stay below 250 lines / 250 bytes per line because py-tree-sitter 0.26.0 corrupts the heap for larger Point values (DESIGN 9-env)."
CHECKS = {
 "C07": ("7/C07", "Hypothesis-seeded damage operators + text strategies; oracle = byte equality, CLI verdict, refusal of edits", "Searches damaged programs, arbitrary text and bad VALUE arguments; a pass means no erroneous text among those generated was altered, accepted by `test`, or edited.", TB),
 "C12": ("7/C12", "small-scope exhaustive enumeration + Hypothesis text; independent Nix name decoder as oracle", "Every name of length <=4 over the 14-symbol critical alphabet (thorough: exhaustive for that sub-domain; quick: seed-strided sample) plus random Unicode names and malformed paths run through set/set/rm life cycles and are read back with the independent CST reader.", TB + " The path encoder is written from the property statement."),
 "C13": ("7/C13", "Hypothesis recursive value strategies x construction contexts; read-back with an independent CST->data reader", "Generated nested Python values are rendered through each construction context (incl. overwrite histories) and read back as data; equality, double-render equality and re-parse stability are checked.", TB),
 "C20": ("7/C20", "Hypothesis text/damage/valid-program generators with exception-type oracle + depth-doubling work-counter families", "Exception types are checked on arbitrary, damaged and valid inputs; growth is decided by a deterministic call-count ratio work(2d)/work(d) <= 20 over 45 construct families.", TB + " The call-event counter is the proxy for running time."),
}
MODEL = " The reference model (vf/model/attrs.py) is written from docs/cli.md, README and the statements of C05/C09; situations the statements leave undefined are not generated."
CHECKS.update({
 "C04": ("7/C04", "seeded edit histories on generated documents; byte-hunk locality oracle + comment survival + attribute-tree/wrapper oracle", "Every successful step of generated set/rm histories is checked: on canonical input the single diff hunk must lie in the region the operation may touch; comments outside it survive; all other bindings and the wrappers keep their tokens.", TB + MODEL),
 "C05": ("7/C05", "model-based testing: seeded set/rm histories compared step by step with an independent attribute-tree reference model", "Histories of set/rm over generated documents (all wrapper shapes, path classes, both same-object and re-parse modes) are compared with the reference model after every step; well-formed edits must not be refused.", TB + MODEL),
 "C08": ("7/C08", "Hypothesis RuleBasedStateMachine interleaving failing and succeeding edits; invariants + twin-document differential", "A rule-based state machine interleaves rejected edits of every listed class with successful ones on one object; after each rejection the exception type, the rebuilt text and a structural snapshot are checked, and a twin document that never saw the failing calls must stay identical.", TB + MODEL),
 "C09": ("7/C09", "model-based testing with scoped-path bias: let-chain reader vs layer model", "Same engine as C05 with 80% scoped operations over 0-3 let layers: layer count, per-layer attribute trees, body and wrapper tokens are compared with the model after every step.", TB + MODEL),
 "C19": ("7/C19", "metamorphic relations (idempotence, inverse, commutativity) over model-chosen well-formed edits", "Four algebraic laws are evaluated on canonical generated documents, on one object and with re-parse; no external oracle is needed beyond text/tree equality.", TB + MODEL),
})
CHECKS.update({
 "C15": ("7/C15", "structural-snapshot purity oracle + differential runs across fresh interpreters, hash seeds, working directories and 8 threads", "Purity is decided by comparing a deep structural snapshot of the tree before/after rebuild and repeated rebuild texts on generated inputs; history, thread, hash-seed and cwd independence by per-item digest equality between this process, child interpreters and threads.", TB + " CPython's scheduler is not controlled: thread interleavings are sampled."),
 "C16": ("7/C16", "differential testing CLI (in-process entry point on stdin and -f, plus subprocess sample) against the library calls", "Generated inputs x commands are run through the CLI on both channels and compared with the library's verdict/text, including the exact line-terminator rule and the emitted-file-passes-test clause.", TB + MODEL),
 "C17": ("7/C17", "generated directory trees with decoys; posixpath reference resolver; cwd x entry-spelling matrix", "Import chains over generated directory layouts are followed from several working directories and entry spellings and compared with a pure path computation; error classes are checked by exception type.", "Real temporary directories; os.chdir is confined to the shard process."),
})
SCOPE = " The reference resolver (vf/model/scope.py) implements Nix lexical scoping (lexical frames before with environments, inherit from the enclosing scope) over documents of a scoping grammar; situations the statement leaves undefined are not generated."
CHECKS.update({
 "C10": ("7/C10", "model-based testing against an independent lexical-scoping resolver over a scoping grammar; history machine over several live documents", "Every identifier-valued binding of generated scoping programs is resolved and compared with the reference resolver (right binding, or explicit ResolutionError; unbound/cyclic names must raise); a history part creates, resolves, moves nodes between and drops documents with gc in between.", TB + SCOPE),
 "C11": ("7/C11", "model-based testing: expected document = input with the resolver-designated binding replaced; token-sequence equality", "For every reference-valued binding, set (CLI helper and API, fresh parse and one-object histories with rebinding steps) must change exactly the binding the reference resolver designates; the expected text is re-rendered from the model and compared token by token.", TB + SCOPE),
})
CHECKS.update({
 "C14": ("7/C14", "Hypothesis RuleBasedStateMachine over document / nested-set / scope mappings with a nested-dict model; text read back as data", "A rule-based state machine performs get/set/delete (existing, absent, into non-mappings, rebinding the name an identifier-bodied document goes through) on the three mapping kinds; after every rule the dictionary law of the rule and the equality of the rebuilt text (read back as nested data by the independent reader) with the model are checked.", TB),
})
CHECKS.update({
 "C02": ("7/C02", "metamorphic generation from upstream nixfmt-validated fixtures (layout-preserving transformations) + package-idiom printer; byte-equality oracle", "Canonical inputs are derived from the texts the repository's tests assert to be nixfmt-stable by transformations RFC 0166 treats as layout-neutral (whole-line item duplication/removal/swap, renames, literal changes, own-line comments, single blank lines), growing to 80+ bindings and deeper nesting; each must be rebuilt byte for byte and accepted by `nima test`.", TB + " nixfmt is not available offline: canonical-ness is inherited from upstream's validated fixtures."),
})
RT = " Gap/trivia pairs that fail on the unchanged tree are excluded by construction through known findings (known_findings.json, quarantine/<ID>.json): the search runs where the property holds today."
CHECKS.update({
 "C01": ("7/C01", "grammar-based program generation + trivia injection in every inter-token gap; token-sequence equality oracle on an independent tree-sitter reader", "Programs over the full expression grammar with whitespace/comment classes injected into 1..all gaps are round-tripped; the rebuilt text must be valid and carry the same normalised code-token sequence.", TB + RT),
 "C03": ("7/C03", "grammar-based generation with comment-biased trivia injection; comment multiset/order/wording and barrier-position oracle", "Comments of every kind and placement are injected with unique tags; after the round trip the same comments must appear once, in order, with the same normalised wording and the same number of barrier tokens before them.", TB + RT),
})
CHECKS.update({
 "C06": ("7/C06", "grammar-based generation with line-level trivia + edit-history outputs; second-pass byte-equality and CLI test oracle", "Generated programs with arbitrary whitespace and own-line/end-of-line comments are rebuilt twice (the second pass must return identical bytes and `nima test` must accept the first output); the same is required of every text emitted by successful set/rm steps of generated edit histories.", TB + RT),
 "C18": ("7/C18", "grammar-based generation with whitespace-biased trivia injection; lexical spacing normal-form scan of the rebuilt text", "Tabs, space runs, blank-line runs, trailing spaces and comments are injected into every gap label; the rebuilt text is scanned outside strings/comments for the normal-form rules (no tab, no trailing blanks, <=1 blank line, single spaces, attached ; and :, closing delimiters aligned with their opener).", TB + RT),
})
for pid, mod in [("C01", "round trip: token-sequence equality after rebuild"), ("C03", "round trip: comment multiset/order/barrier-position oracle"), ("C06", "round trip: second-pass fixed point + CLI test"), ("C18", "round trip: lexical spacing normal-form scan")]:
    pass

checks = []
for p in props:
    pid = p["id"]
    if pid not in CHECKS:
        continue
    ref, tech, text, note = CHECKS[pid]
    checks.append({
        "property_id": pid,
        "quick_cmd": f"./check {pid} --tier quick",
        "thorough_cmd": f"./check {pid} --tier thorough",
        "evidence_file": f"evidence/{pid}.json",
        "replay_cmd_template": f"./check {pid} --replay {{path}}",
        "engine": "vf",
        "level_claimed": {"category": "exploration", "text": text, "design_ref": ref},
        "level_note": note,
        "technique": tech,
    })
m = {
 "version": 1,
 "setup_cmd": "./setup.sh",
 "hooks": {"guard": "NIMA_VERIF", "enable": "no hooks are needed: checks import nix_manipulator from /repo's working tree ($NIMA_REPO) in a fresh interpreter", "baseline_off_cmd": "cd /repo && /venv/bin/python -m pytest -ra -q -p no:cacheprovider --timeout=900 --continue-on-collection-errors", "source_commits": [], "add_only": True},
 "engines": [{"name": "vf", "path": "vf/", "serves_properties": [c["property_id"] for c in checks], "kind_free_text": "Hypothesis-seeded generators, rule-based state machines and independent tree-sitter oracles behind one sharded runner (./check)"}],
 "checks": checks,
 "notes": "Known findings: known_findings.json (open entries print KNOWN-FINDING lines; fixed entries are plain regression replays). Seeded mutants: seeded/. Drill results: drills/RESULTS.md.",
 "not_applicable": [{"property_id": p["id"], "reason": "check under construction (not yet registered)"} for p in props if p["id"] not in CHECKS],
}
json.dump(m, open(os.path.join(ROOT, "MANIFEST.json"), "w"), indent=1)
print("checks:", [c["property_id"] for c in checks])
