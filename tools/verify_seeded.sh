#!/bin/bash
# usage: tools/verify_seeded.sh <seeded dir name>   -> one status line (development tool)
# Confirms in a scratch worktree of /repo HEAD: demo passes without the patch, patch applies, the repository's
# baseline (340 stable tests) passes with it, demo fails with it.
m=$1; d=/verif/seeded/$m; wt=$(mktemp -d /tmp/vs-XXXXXX); rmdir $wt
git -C /repo worktree add -q --detach $wt HEAD || { echo "$m WORKTREE-FAIL"; exit 0; }
cd $wt
PYTHONPATH=$wt timeout 600 /venv/bin/python -B $d/demo.py >/dev/null 2>&1; pre=$?
if git apply $d/patch.diff 2>/dev/null; then ap=ok; elif git apply --3way $d/patch.diff >/dev/null 2>&1; then ap=3way; git reset -q; else ap=FAIL; fi
if [ $ap != FAIL ]; then
  /venv/bin/python - "$wt" <<'PY' >/dev/null 2>&1
import json, os, subprocess, sys, tempfile, xml.etree.ElementTree as ET
wt=sys.argv[1]; base=json.load(open('/root/.vp/BASELINE.json')); stable=set(base['stable_pass'])
with tempfile.TemporaryDirectory() as td:
    x=os.path.join(td,'j.xml')
    subprocess.run(['/venv/bin/python','-m','pytest','-q','-p','no:cacheprovider','--timeout=900','--continue-on-collection-errors','-n','4',f'--junitxml={x}'],cwd=wt,env=dict(os.environ,PYTHONPATH=wt,PYTHONDONTWRITEBYTECODE='1'),stdout=subprocess.DEVNULL,stderr=subprocess.DEVNULL)
    passed={f"{tc.get('classname')}::{tc.get('name')}" for tc in ET.parse(x).getroot().iter('testcase') if not any(ch.tag in ('failure','error','skipped') for ch in tc)}
sys.exit(0 if stable<=passed else 1)
PY
  base=$?
  PYTHONPATH=$wt timeout 600 /venv/bin/python -B $d/demo.py >/dev/null 2>&1; post=$?
  [ $ap = 3way ] && git diff > /tmp/vs-$m.rebased.diff
else base=-; post=-; fi
cd /; git -C /repo worktree remove --force $wt
echo "$m apply=$ap demo_pre=$pre baseline_rc=$base demo_post=$post"
