#!/venv/bin/python
"""Development tool: drills/raw.txt (tools/drill_all.sh) + seeded/*/meta.json -> drills/RESULTS.md"""
import json, os, re
root = os.path.join(os.path.dirname(os.path.abspath(__file__)), "..")
rows = {}
for ln in open(os.path.join(root, "drills", "raw.txt")):
    m = re.match(r"(\S+) (C\d\d) exit=(\d+)\s*(?:signature: (.*))?", ln.strip())
    if m:
        rows[(m.group(1), m.group(2))] = (m.group(3), (m.group(4) or "").strip())
    elif ln.strip():
        rows[(ln.split()[0], "?")] = ("?", ln.strip())
out = ["# Seeded-mutant drills", "",
       "Every change under `seeded/` (written by an independent sub-agent that saw only the property text; re-verified by `tools/verify_seeded.sh` against the current HEAD of /repo: demo passes before, 340/340 baseline with the patch, demo fails with it) was applied to a scratch worktree and the **quick** tier of the check of its own property was run against it (`tools/drill.sh`, `NIMA_REPO=<worktree>`, `VERIF_SEED=1`).  exit=1 means a VIOLATION line was printed.  Raw output: `drills/raw.txt` (`tools/drill_all.sh`).  Names: `-mutN` first round, `-s2N` second (harder) round, `-s3N` third round.", "",
       "| mutant | what it changes / needs | check | exit | first violation signature |", "|---|---|---|---|---|"]
caught = total = 0
for (m, c), (rc, sig) in sorted(rows.items()):
    meta = {}
    try:
        meta = json.load(open(os.path.join(root, "seeded", m, "meta.json")))
    except Exception:
        pass
    what = (meta.get("summary", "") + (" — needs: " + meta.get("needs", "") if meta.get("needs") else "")).replace("|", "\\|").replace("\n", " ")[:300]
    out.append(f"| {m} | {what} | {c} | {rc} | `{sig[:110]}` |")
    total += 1
    caught += rc == "1"
out += ["", f"{caught} of {total} detected."]
open(os.path.join(root, "drills", "RESULTS.md"), "w").write("\n".join(out) + "\n")
print(f"{caught}/{total}")
