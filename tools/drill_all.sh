#!/bin/bash
# Runs every seeded mutant against the quick check of its own property (development tool) -> drills/raw.txt
cd "$(dirname "$0")/.." || exit 2
mkdir -p drills
ls seeded | grep -v _retired | VERIF_PROCS=4 xargs -P 4 -n 1 tools/drill.sh > drills/raw.txt 2>&1
sort drills/raw.txt
