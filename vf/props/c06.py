"""C06 — rebuilt text is stable: formatting it again changes nothing."""

from vf import cst, nima, oracles
from vf.gen import trivia as T
from vf.props import rt_common as RT

ID = "C06"
LEVEL = "exploration"
RULE = (
    "Same program generator as C01; trivia restricted to the statement's domain (all whitespace classes, comments only "
    "own-line or end-of-line). Oracle: r = rebuild(parse(P)); rebuild(parse(r)) == r byte for byte and the in-process CLI "
    "`test` on r prints OK / returns 0. Outputs of edit sequences are covered by the C05/C19 state machines which call the "
    "same fixed-point oracle. Non-trivial = r != P (the first pass normalised something)."
)
ASSUMPTIONS = [
    "inputs whose rebuild is itself invalid Nix are C01's business and skipped here",
    "a rebuilt text that only the pinned grammar rejects (trailing comma in formals) is counted as environment limit",
]

CLASSES = T.WS_CLASSES + T.LINE_COMMENT_CLASSES + T.BLOCK_OWN_CLASSES


def check(text, tree):
    if oracles.has_midline_comment(tree):
        return "skip:midline-comment", []
    status, out = RT.rebuild(text)
    if status == "refused":
        return "refused", [(out, {})]
    if status == "crash":
        return "skip:crash", []
    out_tree = cst.parse(out)
    if out_tree.root.has_error:
        if not cst.errors(out_tree):
            return "skip:env-formals-comma", []
        return "skip:invalid-output", []
    if cst.norm_token_keys(out_tree) != cst.norm_token_keys(tree):
        return "skip:tokens-differ", []
    status2, out2 = RT.rebuild(out)
    fails = []
    if status2 != "ok":
        fails.append(("second-pass-" + status2, {"msg": out2, "out": out[:300]}))
    elif out2 != out:
        i = next((k for k, (a, b) in enumerate(zip(out, out2)) if a != b), min(len(out), len(out2)))
        fails.append(("not-fixed-point", {"at": i, "first": out[max(0, i - 30) : i + 30], "second": out2[max(0, i - 30) : i + 30]}))
    else:
        code, so, se, exc = nima.cli(["test"], out)
        if exc is not None or code != 0 or so != "OK\n":
            fails.append(("cli-test-rejects", {"code": code, "stdout": so, "exc": repr(exc)}))
    return ("ok" if out != text else "ok-unchanged"), fails


def _nontrivial(ast, perts, status, text):
    return status == "ok"


CFG = RT.Config(ID, CLASSES, check, nontrivial=_nontrivial)


def plan(tier):
    return {"shards": 16, "examples": 600 if tier == "quick" else 15000, "wall_limit": 240 if tier == "quick" else 2400}


def run_shard(sh):
    RT.run_shard(sh, CFG)


def replay(case):
    return RT.replay(case, CFG)
