"""C06 — rebuilt text is stable: formatting it again changes nothing."""

from vf import cst, nima, oracles
from vf.gen import trivia as T
from vf.props import rt_common as RT

ID = "C06"
LEVEL = "exploration"
RULE = (
    "Same program generator as C01; trivia restricted to the statement's domain (all whitespace classes, comments only "
    "own-line or end-of-line). Oracle: r = rebuild(parse(P)); rebuild(parse(r)) == r byte for byte and the in-process CLI "
    "`test` on r prints OK / returns 0. Outputs of edit sequences are covered by the C05/C19 state machines which call the "
    "same fixed-point oracle. Non-trivial = r != P (the first pass normalised something)."
    ' A third generator assigns generated nested Python values through the mapping API and then edits the same object through the CLI helper; the emitted text must be a fixed point accepted by `nima test`.'
)
ASSUMPTIONS = [
    "inputs whose rebuild is itself invalid Nix are C01's business and skipped here",
    "a rebuilt text that only the pinned grammar rejects (trailing comma in formals) is counted as environment limit",
]

CLASSES = T.WS_CLASSES + T.LINE_COMMENT_CLASSES + T.BLOCK_OWN_CLASSES


def check(text, tree):
    if oracles.has_midline_comment(tree):
        return "skip:midline-comment", []
    status, out = RT.rebuild(text)
    if status == "refused":
        return "refused", [(out, {})]
    if status == "crash":
        return "skip:crash", []
    out_tree = cst.parse(out)
    if out_tree.root.has_error:
        if not cst.errors(out_tree):
            return "skip:env-formals-comma", []
        return "skip:invalid-output", []
    if cst.norm_token_keys(out_tree) != cst.norm_token_keys(tree):
        return "skip:tokens-differ", []
    if not cst.env_ok(out):
        return "skip:env-limit-output", []
    status2, out2 = RT.rebuild(out)
    fails = []
    if status2 == "refused" and out2.startswith("timeout"):
        return "skip:timeout", []
    if status2 != "ok":
        fails.append(("second-pass-" + status2, {"msg": out2, "out": out[:300]}))
    elif out2 != out:
        i = next((k for k, (a, b) in enumerate(zip(out, out2)) if a != b), min(len(out), len(out2)))
        fails.append(("not-fixed-point", {"at": i, "first": out[max(0, i - 30) : i + 30], "second": out2[max(0, i - 30) : i + 30]}))
    else:
        code, so, se, exc = nima.cli(["test"], out)
        if exc is not None or code != 0 or so != "OK\n":
            fails.append(("cli-test-rejects", {"code": code, "stdout": so, "exc": repr(exc)}))
    return ("ok" if out != text else "ok-unchanged"), fails


def _nontrivial(ast, perts, status, text):
    return status == "ok"


CFG = RT.Config(ID, CLASSES, check, nontrivial=_nontrivial)


def edit_outputs(sh, examples):
    """Second generator: every text emitted by a successful set/rm of a generated edit history must be a fixed point."""
    import random

    from hypothesis import HealthCheck, Phase, given, seed, settings
    from hypothesis import strategies as st

    from vf.props import c05

    doc_kw, op_kw, flags = c05.params_from_quarantine(sh.quarantine)

    @seed(sh.hseed + 7)
    @settings(max_examples=examples, database=None, deadline=None, suppress_health_check=list(HealthCheck), phases=[Phase.generate])
    @given(st.integers(0, 2**48))
    def prop(n):
        if sh.over_budget():
            sh.skipped_budget += 1
            return
        if n % 5 == 0:
            case = mapping_case(random.Random(n))
            fl, done = judge_mapping(case)
            sh.record(case, done, ["mapping-then-cli", "op:" + case["op"][0]])
            for sig, d in fl[:1]:
                sh.fail(sig, case, d)
            return
        g = c05.gen_case(n, kw=doc_kw, op_kw=op_kw, flags=flags)
        if g is None:
            return
        text, ops, mode = g
        bad = []

        def collect(cur, op, path, value, out, notes):
            if not cst.env_ok(out) or cst.parse(out).root.has_error:
                return
            st2, out2 = RT.rebuild(out)
            cls = "+".join(x for x in notes if not x.startswith("layer-"))
            if st2 != "ok":
                bad.append((f"edit-output-second-pass-{st2}|{op}|{cls}", {"doc": cur[:400], "op": [op, path, value], "out": out[:400]}))
            elif out2 != out:
                i = next((k for k, (a, b) in enumerate(zip(out, out2)) if a != b), min(len(out), len(out2)))
                bad.append((f"edit-output-not-fixed-point|{op}|{cls}", {"doc": cur[:400], "op": [op, path, value], "at": i, "first": out[max(0, i - 40) : i + 40], "second": out2[max(0, i - 40) : i + 40]}))
            else:
                code, so, se, exc = nima.cli(["test"], out)
                if exc is not None or (so, code) != ("OK\n", 0):
                    bad.append((f"edit-output-rejected-by-test|{op}|{cls}", {"out": out[:300], "stdout": so}))

        _f, info = c05.run_case(text, ops, mode, collect=collect)
        case = {"doc": text, "ops": [list(o) for o in ops], "mode": mode}
        sh.record(case, info.get("ok_steps", 0) >= 1, ["edit-history", f"oksteps:{min(info.get('ok_steps', 0), 5)}"])
        for sig, d in bad[:1]:
            sh.fail(sig, case, d)

    prop()


MAP_DOCS = [
    "{\n  a = 1;\n  b = {\n    c = 2;\n  };\n}\n",
    "{ pkgs }:\n{\n  a = 1;\n  b = {\n    c = 2;\n  };\n  d.e = 3;\n}\n",
    "let\n  v = 1;\nin\n{\n  a = v;\n  b = {\n    c = 2;\n  };\n}\n",
    "{ a = 1; b = { c = 2; }; }\n",
    "stdenv.mkDerivation {\n  a = 1;\n  b = {\n    c = 2;\n  };\n}\n",
]


def _pyvalue(r, depth):
    x = r.random()
    if depth == 0 or x < 0.3:
        return r.choice([1, 2, -3, "s", "two words", "multi\nline", True, None, 0.5])
    if x < 0.7:
        return [_pyvalue(r, depth - 1) for _ in range(r.choice([0, 1, 1, 2, 2, 3]))]
    return {k: _pyvalue(r, depth - 1) for k in r.sample(["k1", "k2", "k3"], r.choice([0, 1, 2, 3]))}


def mapping_case(r):
    """Python values assigned through the mapping API, then a CLI edit on the same object: the emitted text."""
    doc = r.choice(MAP_DOCS)
    assigns = []
    for _ in range(r.randint(1, 3)):
        path = r.choice([["matrix"], ["a"], ["b", "c"], ["b", "new"], ["extra"]])
        assigns.append([path, _pyvalue(r, r.choice([1, 2, 2, 3]))])
    op = r.choice([["set", "zz", "1"], ["set", "b.q", "[ 1 2 ]"], ["rm", "a", None], ["set", "a", "{ x = 1; }"]])
    return {"mapping": True, "doc": doc, "assigns": assigns, "op": op}


def judge_mapping(case):
    nima.reset_state()
    try:
        src = nima.parse(case["doc"])
        for path, value in case["assigns"]:
            obj = src
            for k in path[:-1]:
                obj = obj[k]
            obj[path[-1]] = value
        op, path, value = case["op"]
        out = nima.set_value(src, path, value) if op == "set" else nima.remove_value(src, path)
    except Exception:  # noqa: BLE001 - refusals and what the mapping accepts are C14/C08 matters
        return [], False
    if not cst.env_ok(out) or cst.parse(out).root.has_error:
        return [], False
    st2, out2 = RT.rebuild(out)
    if st2 != "ok":
        return [(f"edit-output-second-pass-{st2}|mapping-then-{op}", {"out": out[:400]})], True
    if out2 != out:
        i = next((k for k, (a, b) in enumerate(zip(out, out2)) if a != b), min(len(out), len(out2)))
        return [(f"edit-output-not-fixed-point|mapping-then-{op}", {"at": i, "first": out[max(0, i - 40) : i + 40], "second": out2[max(0, i - 40) : i + 40], "out": out[:400]})], True
    code, so, se, exc = nima.cli(["test"], out)
    if exc is not None or (so, code) != ("OK\n", 0):
        return [(f"edit-output-rejected-by-test|mapping-then-{op}", {"out": out[:300], "stdout": so})], True
    return [], True



def replay_edit(case):
    from vf.props import c05

    bad = []

    def collect(cur, op, path, value, out, notes):
        if not cst.env_ok(out) or cst.parse(out).root.has_error:
            return
        st2, out2 = RT.rebuild(out)
        if st2 != "ok" or out2 != out:
            bad.append(("edit-output-not-fixed-point", {"op": [op, path, value], "out": out[:300]}))

    c05.run_case(case["doc"], [tuple(o) for o in case["ops"]], case.get("mode", "reparse"), collect=collect)
    return bad


def plan(tier):
    return {"shards": 16, "examples": 1800 if tier == "quick" else 15000, "wall_limit": 240 if tier == "quick" else 2400}


def run_shard(sh):
    RT.run_shard(sh, CFG)
    edit_outputs(sh, max(20, int(sh.params["examples"] * sh.params.get("scale", 1.0)) // 3))


def replay(case):
    if case.get("mapping"):
        return judge_mapping(case)[0]
    if "ops" in case:
        return replay_edit(case)
    return RT.replay(case, CFG)
