"""C12 — attribute names in paths are written and matched faithfully."""

import itertools
import random

from hypothesis import HealthCheck, Phase, given, seed, settings
from hypothesis import strategies as st

from vf import cst, nima
from vf.model import names as N
from vf.props.rt_common import innermost_frame

ID = "C12"
LEVEL = "exploration"
ALPHABET = ["a", "1", "_", "'", "-", ".", '"', "\\", "$", "{", " ", "\n", "\r", "é"]
DIRECTED = [('"a"', "b"), ('"x y"', "k"), ('"a"', "b", "c"), ("a.b", "c"), ("p.q.r", "s"), ("${v}", "b"), ("a${v}", "b", "c"), ("a.b", "c.d", "e"), ('"', "x"), ("\\", "x"), ("a\nb", "c"),
            # names that are not in a Unicode normal form: Nix compares attribute names byte for byte
            ("cafe\u0301",), ("caf\u00e9",), ("\u2126",), ("\u03a9",), ("\u212a", "x"), ("p", "e\u0301"), ("\u037e",), ("\ufb01",)]
KEYWORDS = ["if", "then", "else", "assert", "with", "let", "in", "rec", "inherit", "or", "true", "false", "null", "import"]
RULE = (
    "(a) every string of length 1..4 over the 14-symbol critical alphabet (a 1 _ ' - . \" \\ $ { space \\n \\r é) = 41 370 names "
    "(quick tier: a seed-dependent stride of 6 000; thorough tier: all, exhaustive for this sub-domain), as a single segment and as the "
    "middle of a 3-segment path; (b) Hypothesis text of length <= 40 over full Unicode biased to the same classes plus keywords; (c) malformed "
    "path texts (unterminated quote, dangling backslash, empty segment, quote mid-segment, illegal bare character). Oracle (independent reader): "
    "after set the output is valid and holds exactly one binding whose name decodes to the requested string, with no interpolation node and "
    "nesting depth = number of segments; a second set changes that binding; rm removes it; a pre-existing equivalent spelling (bare vs quoted) "
    "never gets a second definition; malformed paths raise ValueError and leave the text unchanged. Non-trivial = name needs quoting or an "
    "equivalent spelling pre-exists."
)
ASSUMPTIONS = ["NUL is excluded from names (tree-sitter rejects NUL inside a string literal)", "path encoding follows the property statement: bare iff [A-Za-z_][A-Za-z0-9_']*, otherwise quotes with \\\\ and \\\" escapes only"]


def _exc(e):
    return f"{type(e).__name__}@{innermost_frame(e)}"


def _defs(text, depth_names):
    """All bindings of the top-level set whose decoded path equals depth_names -> list of AttrBinding (after flattening)."""
    tree = cst.parse(text)
    if cst.errors(tree):
        return None, tree
    tops = cst.top_expressions(tree)
    if len(tops) != 1 or tops[0].type not in ("attrset_expression", "rec_attrset_expression"):
        return None, tree
    items = cst.attr_items(tree, tops[0])
    return items, tree


def _count(items, names):
    """Number of definitions of the decoded path; also reports interpolation and depth."""
    flat = cst.flat_paths(items)
    return flat.get(tuple(names), [])


def _interp_defs(items):
    """Dynamic (interpolated) bindings: [(spelling, value tokens)] — they are not spellings of any literal name."""
    out = []
    for b in items:
        if "interp" in b.kinds:
            out.append((b.spelling, b.value_tokens))
        elif b.children:
            out.extend(_interp_defs(b.children))
    return out


def _static(items):
    """items without dynamic bindings (recursively)."""
    res = []
    for b in items:
        if "interp" in b.kinds:
            continue
        if b.children:
            b = cst.AttrBinding(b.path, b.spelling, b.kinds, b.value_node, b.value_tokens, b.form, b.node, _static(b.children))
        res.append(b)
    return res


def judge(names, doc, force_quotes=()):
    """Full life cycle for one decoded path on one document."""
    fails = []
    path = N.encode_path(names, force_quotes)
    nima.reset_state()
    items0, _t = _defs(doc, names)
    dyn0 = _interp_defs(items0 or [])
    try:
        out1 = nima.set_value(nima.parse(doc), path, "1")
    except Exception as e:  # noqa: BLE001
        return [("set-raises:" + _exc(e), {"path": path, "msg": str(e)[:100]})]
    items, tree = _defs(out1, names)
    if items is None:
        return [("set-invalid-output", {"path": path, "out": out1[:200]})]
    dyn1 = _interp_defs(items)
    if dyn1 != dyn0:
        fails.append((("set-wrote-interpolation" if len(dyn1) > len(dyn0) else "set-touched-dynamic-binding"), {"path": path, "doc": doc[:200], "out": out1[:200]}))
    items = _static(items)
    vals = _count(items, names)
    if len(vals) != 1:
        fails.append((("set-name-not-read-back" if not vals else "set-duplicate-definition"), {"path": path, "out": out1[:200], "defs": len(vals)}))
        return fails
    if vals[0] != (("integer_expression", "1"),):
        fails.append(("set-wrong-value", {"path": path, "out": out1[:200]}))
    # second set finds the same binding
    try:
        out2 = nima.set_value(nima.parse(out1), path, "2")
    except Exception as e:  # noqa: BLE001
        return fails + [("second-set-raises:" + _exc(e), {"path": path})]
    items2, _ = _defs(out2, names)
    if items2 is None:
        return fails + [("second-set-invalid-output", {"path": path, "out": out2[:200]})]
    if _interp_defs(items2) != dyn0:
        fails.append(("second-set-touched-dynamic-binding", {"path": path, "out": out2[:200]}))
    items2 = _static(items2)
    vals2 = _count(items2, names)
    if len(vals2) != 1 or vals2[0] != (("integer_expression", "2"),):
        fails.append(("second-set-missed-binding", {"path": path, "out": out2[:200], "defs": len(vals2)}))
    # rm finds it
    try:
        out3 = nima.remove_value(nima.parse(out2), path)
    except Exception as e:  # noqa: BLE001
        return fails + [("rm-raises:" + _exc(e), {"path": path, "doc": out2[:200]})]
    items3, _ = _defs(out3, names)
    if items3 is None:
        return fails + [("rm-invalid-output", {"path": path, "out": out3[:200]})]
    if _interp_defs(items3) != dyn0:
        fails.append(("rm-touched-dynamic-binding", {"path": path, "doc": out2[:200], "out": out3[:200]}))
    if _count(_static(items3), names):
        fails.append(("rm-left-binding", {"path": path, "out": out3[:200]}))
    return fails


def judge_malformed(path, doc="{ a = 1; }"):
    src = nima.parse(doc)
    before = src.rebuild()
    fails = []
    for opname, op in (("set", lambda: nima.set_value(src, path, "1")), ("rm", lambda: nima.remove_value(src, path))):
        try:
            res = op()
        except ValueError:
            pass
        except Exception as e:  # noqa: BLE001
            fails.append((f"malformed-{opname}-wrong-exception:{type(e).__name__}", {"path": path}))
        else:
            fails.append((f"malformed-{opname}-accepted", {"path": path, "out": str(res)[:120]}))
        if src.rebuild() != before:
            fails.append((f"malformed-{opname}-changed-document", {"path": path}))
            break
    return fails


def name_class(n: str) -> str:
    if not N.needs_quotes(n):
        return "keyword" if n in KEYWORDS else "bare"
    cls = []
    for ch, nm in ((".", "dot"), ('"', "quote"), ("\\", "backslash"), ("${", "interp"), (" ", "space"), ("\n", "newline"), ("\r", "cr"), ("-", "hyphen")):
        if ch in n:
            cls.append(nm)
    if any(ord(c) > 127 for c in n):
        cls.append("nonascii")
    if n == "":
        cls.append("empty")
    if n[:1].isdigit():
        cls.append("digit-start")
    return "+".join(cls) or "other"


def all_names():
    for k in range(1, 5):
        for tup in itertools.product(ALPHABET, repeat=k):
            yield "".join(tup)


def _malformed(r):
    good = r.choice(["a", "foo", "a.b", '"x y"', "a.\"b.c\""])
    kind = r.choice(["unterminated", "dangling", "empty-seg", "empty-seg2", "quote-mid", "illegal-bare", "empty", "lead-dot", "trail-dot", "at-only", "space", "trailing-newline"])
    if kind == "unterminated":
        return good + '."abc', kind
    if kind == "dangling":
        return good + '."ab\\', kind
    if kind == "empty-seg":
        return good + "..b", kind
    if kind == "empty-seg2":
        return "a..b", kind
    if kind == "quote-mid":
        return 'foo"bar"', kind
    if kind == "illegal-bare":
        return good + "." + r.choice(["a-b", "a b", "1a", "a$", "a{", "é", "a/b", "a+b", "'a", "a\nb", "a\n", "b'\n", "\na", "a\t"]), kind
    if kind == "empty":
        return "", kind
    if kind == "trailing-newline":
        return r.choice(["b\n", "a.b\n", "b\n.c", "zz'\n"]), kind
    if kind == "lead-dot":
        return "." + good, kind
    if kind == "trail-dot":
        return good + ".", kind
    if kind == "at-only":
        return r.choice(["@", "@@", "@."]), kind
    return "a b", kind


def case_docs(names, r):
    """Documents to run the life cycle on: empty set, and sets holding an equivalent spelling."""
    docs = [("empty", "{ }", ())]
    if len(names) == 1:
        n = names[0]
        if not N.needs_quotes(n):
            # file has the quoted spelling, path is bare; and file bare, path quoted
            docs.append(("pre-quoted", "{ " + N.nix_quote(n) + " = 0; }", ()))
            if n not in KEYWORDS:
                docs.append(("pre-bare-path-quoted", "{ " + n + " = 0; }", (0,)))
        else:
            # bare spelling Nix accepts although the path must quote it (foo-bar); a dynamic `${x}` is not a spelling of a name
            t = cst.parse("{ " + n + " = 0; }")
            if cst.valid(t):
                tops = cst.top_expressions(t)
                its = cst.attr_items(t, tops[0]) if len(tops) == 1 and tops[0].type == "attrset_expression" else []
                if len(its) == 1 and its[0].path == (n,) and its[0].kinds == ("bare",):
                    docs.append(("pre-bare-hyphen", "{ " + n + " = 0; }", ()))
    bareable = [i for i, n in enumerate(names) if not N.needs_quotes(n) and n not in KEYWORDS]

    def spell(ns, quoted):
        # layout next to the dots is not part of a name
        return r.choice([".", ".", " . ", ". ", " ."]).join(N.nix_quote(n) if (i in quoted or N.needs_quotes(n) or n in KEYWORDS) else n for i, n in enumerate(ns))

    if len(names) >= 2:
        # the path pre-exists as an attrpath binding / nested sets / next to a sibling of the same family, each with
        # its own choice of spellings; the edit path chooses again
        qa = {i for i in bareable if r.random() < 0.5}
        qb = {i for i in bareable if r.random() < 0.5}
        if bareable and qa == qb:
            qb = qb ^ {r.choice(bareable)}
        fq = tuple(sorted(i for i in bareable if r.random() < 0.5))
        # sibling names that cannot collide with a generated segment
        sib_a, sib_b = [x for x in ("sib0", "sib1", "sib2", "sib3") if x not in names][:2]
        docs.append(("pre-attrpath", "{ " + spell(names, qa) + " = 0; }", fq))
        pre = list(names[:-1])
        docs.append(("pre-attrpath-sibling", "{ " + spell(pre + [sib_a], qa) + " = 0; " + spell(names, qb) + " = 0; }", fq))
        docs.append(("pre-family-only", "{ " + spell(pre + [sib_a], qa) + " = 0; " + spell(pre + [sib_b], qb) + " = 0; }", fq))
        # the first segment written once as an explicit set and then extended by the dotted binding (valid Nix, common in
        # NixOS configurations: `boot = { … }; boot.kernelParams = …;`)
        docs.append(("pre-explicit-then-dotted", "{ " + spell(names[:1], qa) + " = { " + sib_a + " = 0; }; " + spell(names, qb) + " = 0; }", fq))
        nested = "0"
        for i in range(len(names) - 1, -1, -1):
            nested = "{ " + spell([names[i]], {0} if i in qa else set()) + " = " + nested + "; }"
        docs.append(("pre-nested-sets", nested, fq))
    # look-alikes of a *parent* segment: the name `"a"` (quote characters included) next to the set `a`, and the name
    # `a.b` next to the nested sets a -> b; the edit must go to (or create) the binding with exactly the requested name
    if len(names) >= 2:
        n0 = names[0]
        if len(n0) >= 3 and n0.startswith('"') and n0.endswith('"') and '"' not in n0[1:-1] and "\\" not in n0:
            docs.append(("pre-lookalike-unquoted", "{ " + spell([n0[1:-1]], set()) + " = { zz9 = 0; }; }", ()))
        if "." in n0 and all(part and not N.needs_quotes(part) and part not in KEYWORDS for part in n0.split(".")):
            nested = "{ zz9 = 0; }"
            for part in reversed(n0.split(".")):
                nested = "{ " + part + " = " + nested + "; }"
            docs.append(("pre-lookalike-dotted", nested, ()))
    # a dynamic name `"a${x}"` is not a spelling of the literal name `a${x}`
    last = names[-1]
    k = last.find("${x}")
    if k >= 0 and "${" not in last[:k] and "${" not in last[k + 4 :] and names[0] != "x":  # (`x` is the helper binding of the document)
        raw = N.nix_quote(last[:k])[:-1] + "${x}" + N.nix_quote(last[k + 4 :])[1:]
        doc = '{ x = "k"; ' + spell(names[:-1], set()) + ("." if len(names) > 1 else "") + raw + " = 0; }"
        t = cst.parse(doc)
        if cst.valid(t):
            its, _t = _defs(doc, names)
            # `$${x}` is literal text: then the document simply holds the same name
            docs.append(("pre-dynamic" if _interp_defs(its or []) else "pre-literal-dollar", doc, ()))
    return docs


def run_names(sh, names_iter, tag):
    for names in names_iter:
        if sh.over_budget():
            sh.skipped_budget += 1
            continue
        r = random.Random(hash(tuple(names)) & 0xFFFFFF)
        for dtag, doc, fq in case_docs(names, r):
            case = {"kind": "name", "names": list(names), "doc": doc, "force_quotes": list(fq)}
            blocked = _blocked(sh, names, dtag)
            if blocked:
                sh.excluded += 1
                continue
            fails = judge(names, doc, fq)
            cls = [f"{tag}", f"doc:{dtag}", f"segs:{len(names)}"] + ["name:" + name_class(n) for n in names]
            sh.record(case, any(N.needs_quotes(n) for n in names) or dtag != "empty", cls)
            for k, d in fails:
                culprit = None
                if len(names) > 1:
                    for n in names:
                        if any(k2 == k for k2, _ in judge((n,), "{ }")):
                            culprit = n
                            break
                if culprit is not None:
                    sh.fail(f"{k}|{dtag}|{name_class(culprit)}", {"kind": "name", "names": [culprit], "doc": "{ }", "force_quotes": []}, d)
                else:
                    cls_sig = name_class(names[0]) if len(names) == 1 else "multi:" + "+".join(sorted({name_class(n) for n in names}))
                    sh.fail(f"{k}|{dtag}|{cls_sig}", case, d)


def _blocked(sh, names, dtag):
    for q in sh.quarantine or []:
        if "doc" in q and q["doc"] == dtag:
            return True
        if "name_class" in q and any(name_class(n) == q["name_class"] for n in names):
            return True
    return False


def replay(case):
    if case.get("kind") == "malformed":
        return judge_malformed(case["path"])
    return judge([str(x) for x in case["names"]], case["doc"], tuple(case.get("force_quotes", ())))


def plan(tier):
    return {"shards": 16, "examples": 300 if tier == "quick" else 20000, "exhaustive_stride": 7 if tier == "quick" else 1, "exhaustive": tier != "quick", "wall_limit": 300 if tier == "quick" else 3000}


def run_shard(sh):
    stride = sh.params["exhaustive_stride"]
    # (a) exhaustive small scope, sharded
    def part_a():
        for i, n in enumerate(all_names()):
            if i % sh.nshards != sh.index:
                continue
            if stride > 1 and ((i // sh.nshards) + sh.seed) % stride != 0:
                continue
            yield (n,)
            if (i // sh.nshards) % 5 == 0:
                yield ("p", n, "q")
    run_names(sh, part_a(), "exhaustive-small-scope")
    if sh.index == 0:
        run_names(sh, DIRECTED, "directed")

    examples = int(sh.params["examples"] * sh.params.get("scale", 1.0))
    crit = st.sampled_from(ALPHABET + ["${", "${x}", "\\${", "''", "\t", "/", "+", "@", "#", "日本", "=", ";", "\\n", "\\\\", "e\u0301", "\u2126", "\u212a", "\u0301"] + KEYWORDS)
    name_st = st.one_of(st.lists(crit, min_size=0, max_size=8).map("".join), st.text(max_size=40).map(lambda s: s.replace("\x00", "")), st.sampled_from(KEYWORDS), st.sampled_from(["foo-bar", "a", "x'", "_", "a.b", "é", ""]))
    paths_st = st.lists(name_st, min_size=1, max_size=3)

    @seed(sh.hseed)
    @settings(max_examples=examples, database=None, deadline=None, suppress_health_check=list(HealthCheck), phases=[Phase.generate])
    @given(paths_st, st.integers(0, 2**32))
    def prop(names, n):
        if sh.over_budget():
            sh.skipped_budget += 1
            return
        if any("\x00" in x for x in names):
            return
        run_names(sh, [tuple(names)], "random")
        r = random.Random(n)
        path, kind = _malformed(r)
        case = {"kind": "malformed", "path": path}
        fails = judge_malformed(path)
        sh.record(case, True, ["malformed:" + kind])
        for k, d in fails:
            sh.fail(f"{k}|{kind}", case, d)

    prop()
