"""C05 — a successful edit yields valid Nix with exactly the requested attribute change."""

import copy
import random

from hypothesis import HealthCheck, Phase, given, seed, settings
from hypothesis import strategies as st

from vf import cst, nima
from vf.gen import docs as D
from vf.model import attrs as A
from vf.props import edit_common as E

ID = "C05"
LEVEL = "exploration"
RULE = (
    "Documents = wrappers* (lambda heads, let layers, with, assert, parentheses, call heads) around one core attribute set with plain, "
    "nested, attrpath-family, quoted and inherit bindings, comments and blank lines (vf.gen.docs, seed drawn by Hypothesis). Histories of "
    "1-8 set/rm operations with path classes {existing leaf, existing set, family new member, fresh single, fresh nested, quoted, scoped @..@@@, "
    "and refusal classes missing / through-leaf / family-root / deep-scope}, run either on one document object or with a re-parse between steps. "
    "Oracle after every successful step: output valid; the independent reader's attribute tree of the core set and of every enclosing let layer "
    "equals the reference model (paths, order with new-goes-last, attrpath form for families, value tokens); wrapper tokens unchanged. A well-formed "
    "edit that the model accepts must not be refused. Non-trivial = a step that changes a set with >=2 bindings under >=1 wrapper; distinct by SHA-1 "
    "of (document, history)."
)
ASSUMPTIONS = [
    "reference model vf/model/attrs.py written from docs/cli.md, README and the statements of C05/C09",
    "set/rm of a name that is present only through `inherit`, and `@name` without layers where the body already binds the name, are unspecified: not generated / not judged",
]

SCOPED_BIAS = 0.15
KW = {}


def shape_sig(view):
    ks = view.kinds
    out = []
    for k in ks:
        if out and out[-1] == k == "let":
            continue
        out.append(k)
    return ">".join(out) if out else "bare"


STRICT_SCOPE = False  # set by C09


def run_case(doc_text, ops, mode, collect=None):
    """Replay a history.  Returns (failures [(sig, detail)], info)."""
    nima.reset_state()
    view = A.View(doc_text)
    if not view.valid or view.core is None:
        return [], {"skip": "not-editable"}
    model = A.Model(view)
    try:
        src = nima.parse(doc_text) if mode == "same-object" else None
    except Exception as e:  # noqa: BLE001 - a valid, editable document that the library cannot even parse
        return [(f"document-refused:{type(e).__name__}|{shape_sig(view)}", {"exc": E.exc_sig(e), "msg": str(e)[:120], "doc": doc_text[:400]})], {"steps": 0, "ok_steps": 0, "refused": 1, "classes": ["document-refused"]}
    cur = doc_text
    shape = shape_sig(view)
    fails = []
    info = {"steps": 0, "ok_steps": 0, "refused": 0, "classes": []}
    for op, path, value, cls in ops:
        m2 = copy.deepcopy(model)
        try:
            notes = m2.apply(op, path, value)
            pred = "ok"
        except A.Refuse as rf:
            pred = rf
            notes = []
        except A.Unspecified:
            info["classes"].append("unspecified")
            # not judged against the model; the one thing every reading agrees on: no name is defined twice afterwards
            st_u, res_u, _s = E.run_op(cur, op, path, value)
            if st_u == "ok" and isinstance(res_u, str):
                dups = [d for d in A.duplicate_names(res_u) if d not in A.duplicate_names(cur)]
                if dups:
                    fails.append((f"duplicate-definition|{op}:{cls}|{shape}", {"names": dups, "doc": cur[:400], "op": [op, path, value], "out": res_u[:400]}))
                    break
            continue
        said_before = None
        if mode == "same-object" and src is not None:
            try:
                said_before = src.rebuild()
            except Exception:  # noqa: BLE001
                said_before = None
        status, res, src2 = E.run_op(src if mode == "same-object" else cur, op, path, value)
        info["steps"] += 1
        info["classes"].append(f"{op}:{cls}:{'ok' if pred == 'ok' else 'refuse-' + pred.reason}")
        if status == "timeout":
            info["classes"].append("timeout")
            break
        if status == "raise":
            info["refused"] += 1
            if mode == "same-object" and src is not None:
                # whatever the reason for the refusal, the document object still says what it said before
                try:
                    still = src.rebuild()
                except Exception as e:  # noqa: BLE001
                    still = f"<rebuild raises {type(e).__name__}>"
                if still.rstrip("\n") != (said_before if said_before is not None else cur).rstrip("\n"):
                    fails.append((f"document-changed-by-refused-edit|{op}:{cls}|{shape}", {"doc": cur[:400], "after": still[:400], "op": [op, path, value]}))
                    break
            if pred == "ok":
                fails.append((f"refused-wellformed:{type(res).__name__}|{op}:{cls}|{shape}|{'+'.join(notes)}", {"exc": E.exc_sig(res), "msg": str(res)[:120], "doc": cur[:400], "op": [op, path, value]}))
                break
            continue
        if pred != "ok":
            info["classes"].append("accepted-but-model-refuses:" + pred.reason)
            if STRICT_SCOPE and pred.reason == "missing-scope-layer":
                # C09: "deeper selectors fail when the layer does not exist"
                fails.append((f"selector-beyond-the-layers-accepted|{op}:{cls}|{shape}", {"doc": cur[:400], "op": [op, path, value], "out": str(res)[:400]}))
            break
        model = m2
        info["ok_steps"] += 1
        step_fails, v = E.compare(model, view, res)
        for kind, d in step_fails:
            fails.append((f"{kind}|{op}:{cls}|{shape}|{'+'.join(n for n in notes if not n.startswith('layer-'))}", dict(d, doc=cur[:400], op=[op, path, value])))
        if collect is not None:
            collect(cur, op, path, value, res, notes)
        if step_fails:
            break
        cur = res
        view = v
    return fails, info


def params_from_quarantine(quarantine):
    """Generator parameters switched off by open findings (construction, not rejection)."""
    doc_kw, op_kw, flags = {}, {}, {}
    for q in quarantine or []:
        doc_kw.update(q.get("docgen", {}))
        op_kw.update(q.get("opgen", {}))
        flags.update(q.get("flags", {}))
    return doc_kw, op_kw, flags


def gen_case(n, kw=None, scoped_bias=SCOPED_BIAS, max_ops=8, single_line=False, op_kw=None, flags=None):
    r = random.Random(n)
    doc, text = D.make(n, **(kw or {}))
    view = A.View(text)
    if not view.valid or view.core is None:
        return None
    model = A.Model(view)
    mode = r.choice(["same-object", "reparse"])
    ops = []
    flags = flags or {}
    if flags.get("no_scoped_on_call") and view.kinds and view.kinds[-1] == "call" or (flags.get("scoped_needs_adjacent_lets") and not view.lets_adjacent()):
        scoped_bias = 0.0
    if flags.get("no_scoped_in_paren") and "paren" in view.kinds:
        scoped_bias = 0.0
    if "alias" in view.kinds:
        scoped_bias = 0.0  # which let `@` means for a set reached through a name is not stated: unscoped edits only
    # the op generator needs the evolving model: apply the model as we go (refused ops leave it unchanged)
    for _ in range(r.randint(1, max_ops)):
        op, path, value, cls = E.gen_op(r, model, scoped_bias=scoped_bias, single_line=single_line, **(op_kw or {}))
        if path.startswith("@"):
            if flags.get("no_create_layer_under_with") and op == "set" and not model.layers and view.kinds and view.kinds[-1] in ("with", "assert"):
                continue
            if flags.get("no_drop_only_layer") and op == "rm" and len(model.layers) == 1 and len(model.layers[0]) == 1:
                continue
        ops.append((op, path, value, cls))
        try:
            model.apply(op, path, value)
        except (A.Refuse, A.Unspecified):
            pass
    if model.layers and scoped_bias > 0 and r.random() < 0.2 and not (flags.get("no_drop_only_layer") and len(model.layers) == 1):
        # directed tail: empty the innermost let layer binding by binding, so that its `let … in` wrapper is dropped
        layer = model.layers[-1]
        names = [e["path"] for e in layer if e["inh"] is None]
        if names and len(names) <= 3 and all(e["inh"] is None for e in layer):
            for pth in names:
                ops.append(("rm", E.enc(pth, 1), None, "existing-leaf@1"))
    return text, ops, mode


def minimise_case(doc, ops, mode, sig):
    """Drop operations while the same signature is still produced."""
    ops = list(ops)
    i = 0
    calls = 0
    while i < len(ops) and len(ops) > 1 and calls < 40:
        cand = ops[:i] + ops[i + 1 :]
        calls += 1
        fl, _ = run_case(doc, cand, mode)
        if any(s == sig for s, _ in fl):
            ops = cand
        else:
            i += 1
    return ops


def replay(case):
    ops = [tuple(o) for o in case["ops"]]
    fl, _ = run_case(case["doc"], ops, case.get("mode", "reparse"))
    return fl


def plan(tier):
    return {"shards": 16, "examples": 250 if tier == "quick" else 6000, "wall_limit": 300 if tier == "quick" else 2400}


def run_shard(sh, scoped_bias=SCOPED_BIAS, kw=None, only_scoped_failures=False):
    examples = int(sh.params["examples"] * sh.params.get("scale", 1.0))
    doc_kw, op_kw, flags = params_from_quarantine(sh.quarantine)
    doc_kw = dict(doc_kw, **(kw or {}))

    @seed(sh.hseed)
    @settings(max_examples=examples, database=None, deadline=None, suppress_health_check=list(HealthCheck), phases=[Phase.generate])
    @given(st.integers(0, 2**48))
    def prop(n):
        if sh.over_budget():
            sh.skipped_budget += 1
            return
        sh.now(n)
        g = gen_case(n, kw=doc_kw, scoped_bias=scoped_bias, op_kw=op_kw, flags=flags)
        if g is None:
            sh.notes["generator-not-editable"] += 1
            return
        text, ops, mode = g
        fails, info = run_case(text, ops, mode)
        case = {"doc": text, "ops": [list(o) for o in ops], "mode": mode}
        view = A.View(text)
        nontriv = info.get("ok_steps", 0) >= 1 and (len(view.core["set"]) >= 2 and len(view.kinds) >= 1)
        sh.record(case, nontriv, ["mode:" + mode, "shape:" + shape_sig(view), f"oksteps:{min(info.get('ok_steps', 0), 5)}"] + ["op:" + c for c in info.get("classes", [])], refused=False)
        sh.refused += info.get("refused", 0)
        for sig, d in fails:
            small = minimise_case(text, ops, mode, sig)
            sh.fail(sig, {"doc": text, "ops": [list(o) for o in small], "mode": mode}, d)

    prop()
