"""C17 — imports resolve relative to the importing file, whatever the working directory."""

import os
import posixpath
import random
import shutil
import tempfile

from hypothesis import HealthCheck, Phase, given, seed, settings
from hypothesis import strategies as st

from vf import nima

ID = "C17"
LEVEL = "exploration"
RULE = (
    "Directory trees (depth <= 4, <= 10 files) are created in a fresh temporary directory with import chains of 1-5 hops through sibling, child and "
    "parent directories, spelled `./x`, `x/y`, `../x`, absolute, or parenthesised; decoy files of the same name are planted in the working directory, "
    "in the entry file's directory and elsewhere, each holding a distinct integer. The entry path is spelled relative (`a/../a/e.nix`, `./e.nix`) or "
    "absolute, and the process working directory is the tree root, a subdirectory, an unrelated directory or `/`. Error cases: non-path argument "
    "(string, identifier, call), `<angle>` path with and without a slash, missing target. Oracle: the integer read through the chain is the one planted "
    "in the file a pure posixpath computation designates (identical for every cwd and spelling); TypeError / ValueError / OSError for the three error "
    "classes; never another file's integer. Non-trivial = chain >= 2 hops through >= 2 directories with >= 1 decoy."
)
ASSUMPTIONS = ["the reference resolver is posixpath.normpath(join(dirname(importing file), literal)) per hop", "cwd changes are confined to the shard process (os.chdir, restored afterwards)"]

DIRS = ["", "a", "b", "a/c", "a/c/d", "b/e", "lib"]
NAMES = ["x.nix", "y.nix", "z.nix", "default.nix", "set.nix"]


def build_tree(r, root):
    """Create files; returns (entry abs path, expected int | error class, meta)."""
    hops = r.randint(1, 5)
    dirs = [r.choice(DIRS) for _ in range(hops + 1)]
    files = []
    used = set()
    for i, d in enumerate(dirs):
        free = [nm for nm in NAMES if (d, nm) not in used]
        if not free:
            # every name of this directory is taken: a second use would overwrite a file of the chain
            d = next(x for x in DIRS if any((x, nm) not in used for nm in NAMES))
            free = [nm for nm in NAMES if (d, nm) not in used]
        nm = r.choice(free)
        used.add((d, nm))
        files.append(posixpath.join(d, nm) if d else nm)
    final_value = r.randint(1000, 9999)
    error = r.choice([None, None, None, None, None, "type-string", "type-ident", "type-call", "angle", "angle-slash", "missing", "missing-noext"])
    contents = {}
    decoy_vals = {}
    spellings = []
    lookalikes = []
    for i, f in enumerate(files):
        if i == len(files) - 1:
            contents[f] = "{\n  v = %d;\n}\n" % final_value
            break
        nxt = files[i + 1]
        here = posixpath.dirname(f)
        rel = posixpath.relpath(nxt, here or ".")
        style = r.choice(["dot", "dot", "bare", "abs", "paren", "dotdot-noise"])
        if style == "abs":
            lit = posixpath.join(root, nxt)
        elif style == "bare" and "/" in rel and not rel.startswith(".."):
            lit = rel
        elif style == "dotdot-noise" and here:
            lit = "./../" + posixpath.basename(here) + "/" + rel if not rel.startswith("..") else rel
        else:
            lit = rel if rel.startswith("..") else "./" + rel
        if not (lit.startswith("/") or lit.startswith("./") or lit.startswith("../") or "/" in lit):
            lit = "./" + lit
        spellings.append(style)
        arg = lit
        if i == len(files) - 2 and error:
            if error == "type-string":
                arg = '"' + lit + '"'
            elif error == "type-ident":
                arg = "somePath"
            elif error == "type-call":
                arg = "(f " + lit + ")"
            elif error == "angle":
                arg = "<nixpkgs>"
            elif error == "angle-slash":
                arg = "<nixpkgs/lib>"
            elif error == "missing":
                arg = (lit[:-4] if lit.endswith(".nix") else lit) + "-absent.nix"
            elif error == "missing-noext":
                # the literal names no file although `<literal>.nix` exists: still a missing target
                arg = lit[:-4] if lit.endswith(".nix") and not lit[:-4].endswith("/.") and "/" in lit[:-4] else lit + "-absent"
            if error in ("missing", "missing-noext") and not arg.startswith("/"):
                # the same relative literal resolved against the directories the process may stand in names an existing
                # file (look-alike): the missing target next to the importer must still be an OS error
                true_target = posixpath.normpath(posixpath.join(here, arg))
                for cw in ("", "cwd-sub", "a"):
                    cand = posixpath.normpath(posixpath.join(cw, arg))
                    if cand.startswith("..") or cand == true_target:
                        continue
                    lookalikes.append(cand)
        elif style == "paren":
            k = r.choice([1, 1, 2, 3])
            arg = "(" * k + lit + ")" * k
        # what separates `import` from its argument is layout, not part of the call
        sep = r.choice([" ", " ", " ", "\n    ", "\t", " /* c */ ", "  ", "\n    # pinned\n    ", "\n    /* c */\n    ", " # why\n    ", "\n\n    # a\n    # b\n    "]) if not arg.startswith("(") else r.choice([" ", " ", "", "\n    "])
        contents[f] = "{\n  v = import%s%s;\n  other = %d;\n}\n" % (sep, arg, 100 + i)
    # decoys: same basenames in other directories (incl. future cwds), distinct integers
    ndecoys = 0
    for f in list(files):
        bn = posixpath.basename(f)
        for d in r.sample(DIRS, r.randint(0, 3)) + ["cwd-sub", ""]:
            cand = posixpath.join(d, bn) if d else bn
            if cand in contents:
                continue
            contents[cand] = "{\n  v = %d;\n  other = 0;\n}\n" % (50000 + len(decoy_vals))
            decoy_vals[cand] = 50000 + len(decoy_vals)
            ndecoys += 1
        # a file literally named like the angle path beside the importer
    if error in ("angle", "angle-slash"):
        here = posixpath.dirname(files[-2])
        for nm in ("<nixpkgs>", "<nixpkgs/lib>"):
            cand = posixpath.join(here, nm) if here else nm
            contents[cand] = "{\n  v = 666;\n}\n"
    for cand in lookalikes:
        if cand not in contents:
            contents[cand] = "{\n  v = %d;\n  other = 0;\n}\n" % (70000 + ndecoys)
            ndecoys += 1
    for rel, txt in contents.items():
        p = os.path.join(root, rel)
        os.makedirs(os.path.dirname(p), exist_ok=True)
        with open(p, "w") as fh:
            fh.write(txt)
    os.makedirs(os.path.join(root, "cwd-sub"), exist_ok=True)
    ndirs = len({posixpath.dirname(f) for f in files})
    return files, final_value, error, {"hops": hops, "dirs": ndirs, "decoys": ndecoys, "styles": spellings}


def lookup(entry_path):
    """Follow `v` through the import chain: Import.__getitem__ parses the imported file and returns its `v`."""
    val = nima.parse_file(entry_path)["v"]
    for _ in range(12):
        if type(val).__name__ != "Import":
            return val
        val = val["v"]
    raise RuntimeError("chain too long")


def evaluate(root, files, spelling, cwd):
    entry_rel = files[0]
    entry_abs = os.path.join(root, entry_rel)
    if spelling == "abs":
        entry = entry_abs
    elif spelling == "rel":
        entry = os.path.relpath(entry_abs, cwd)
    elif spelling == "dot-rel":
        entry = "./" + os.path.relpath(entry_abs, cwd)
    else:  # noisy
        rel = os.path.relpath(entry_abs, cwd)
        d, b = os.path.split(rel)
        entry = os.path.join(d, "..", os.path.basename(os.path.dirname(os.path.abspath(os.path.join(cwd, rel)))), b) if d not in ("", ".") or True else rel
        if not os.path.exists(os.path.join(cwd, entry)):
            entry = rel
    old = os.getcwd()
    os.chdir(cwd)
    try:
        try:
            val = lookup(entry)
            return "value", int(val.value) if hasattr(val, "value") else val
        except Exception as e:  # noqa: BLE001
            return "error", e
    finally:
        os.chdir(old)


def judge(r, root):
    files, final_value, error, meta = build_tree(r, root)
    cwds = [root, os.path.join(root, "cwd-sub"), os.path.join(root, "a") if os.path.isdir(os.path.join(root, "a")) else root, tempfile.gettempdir(), "/"]
    fails = []
    outcomes = []
    for cwd in cwds:
        for spelling in (["abs", "rel"] if cwd != "/" else ["abs", "rel"]) + (["dot-rel", "noisy"] if r.random() < 0.5 else []):
            kind, res = evaluate(root, files, spelling, cwd)
            outcomes.append((os.path.relpath(cwd, root) if cwd.startswith(root) else cwd, spelling, kind, res if kind == "value" else type(res).__name__))
            if error is None:
                if kind != "value" or res != final_value:
                    what = "wrong-file" if kind == "value" else f"raises:{type(res).__name__}"
                    fails.append((f"{what}|cwd:{'root' if cwd == root else 'sub' if cwd.startswith(root) else 'outside'}|entry:{spelling}", {"expected": final_value, "got": res if kind == "value" else repr(res)[:120], "files": files, "cwd": cwd}))
            else:
                want = {"type-string": TypeError, "type-ident": TypeError, "type-call": TypeError, "angle": ValueError, "angle-slash": ValueError, "missing": OSError, "missing-noext": OSError}[error]
                if kind == "value":
                    fails.append((f"error-case-returned-value|{error}", {"got": res, "files": files, "cwd": cwd}))
                elif not isinstance(res, want):
                    fails.append((f"wrong-error-type:{type(res).__name__}|{error}", {"files": files, "cwd": cwd, "msg": str(res)[:100]}))
    return fails, meta, error, outcomes, files


def replay(case):
    root = tempfile.mkdtemp(prefix="c17-")
    try:
        fails, *_ = judge(random.Random(case["seed"]), root)
        return [(k, d) for k, d in fails]
    finally:
        shutil.rmtree(root, ignore_errors=True)


def plan(tier):
    return {"shards": 16, "examples": 400 if tier == "quick" else 5000, "wall_limit": 300 if tier == "quick" else 2400}


def run_shard(sh):
    examples = int(sh.params["examples"] * sh.params.get("scale", 1.0))

    @seed(sh.hseed)
    @settings(max_examples=examples, database=None, deadline=None, suppress_health_check=list(HealthCheck), phases=[Phase.generate])
    @given(st.integers(0, 2**48))
    def prop(n):
        if sh.over_budget():
            sh.skipped_budget += 1
            return
        sh.now(n)
        root = tempfile.mkdtemp(prefix="c17-")
        try:
            fails, meta, error, outcomes, files = judge(random.Random(n), root)
        finally:
            shutil.rmtree(root, ignore_errors=True)
        case = {"seed": n, "files": files, "error": error, "hops": meta["hops"]}
        nontriv = meta["hops"] >= 2 and meta["dirs"] >= 2 and meta["decoys"] >= 1
        sh.record(case, nontriv, [f"hops:{meta['hops']}", f"dirs:{meta['dirs']}", f"error:{error}"] + ["style:" + s for s in meta["styles"]])
        seen = set()
        for k, d in fails:
            if k in seen:
                continue
            seen.add(k)
            sh.fail(k, case, d)

    prop()
