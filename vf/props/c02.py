"""C02 — RFC-0166-formatted source is reproduced byte for byte."""

import random
import re

from hypothesis import HealthCheck, Phase, given, seed, settings
from hypothesis import strategies as st

from vf import cst, nima
from vf.gen import docs as D
from vf.gen import fixtures as F

ID = "C02"
LEVEL = "exploration"
RULE = (
    "Seeds are the Nix texts that the repository's own tests assert to be nixfmt/RFC-0166 stable (extracted statically: every validate_nixfmt_rfc(<text>) "
    "literal and the formatted files under tests/nix-files; a trailing formals comma, which the pinned grammar cannot parse, is replaced by the equally "
    "canonical `...` line).  Each generated case applies 0-40 layout-preserving transformations to a seed: duplicate / delete / swap whole-line bindings, "
    "let bindings and list items inside expanded containers (also multi-line blocks, so nesting and size grow), rename binding heads, replace integer and "
    "simple string literals, replace the value of a one-line binding by one of 46 one-line values in canonical form (empty list/set as call arguments, operators, lambdas, paths, selects…), insert own-line `#` comments above an item and single blank lines between items.  These keep every line's indentation and the "
    "expanded/inline choice, which RFC 0166 preserves, and lines stay below 100 columns.  A second generator prints package-idiom files with the C05 document "
    "printer restricted to the shapes witnessed by the fixtures; a third prints nixpkgs-style file heads (lambda head, `with …;` / `assert …;` statements "
    "separated by single blank lines, optional own-line comments, package body).  Oracle: rebuild(parse(K)) == K byte for byte (final newline included) and the in-process CLI "
    "`test` says OK/0.  Non-trivial = >=3 transformations and >=1 comment or blank line in the file."
)
ASSUMPTIONS = [
    "canonical-ness is inherited from upstream-validated fixtures under transformations that RFC 0166 treats as layout-neutral; nixfmt itself is not available offline",
    "tree-sitter-nix 0.1.0 must parse the file (expanded formals end in `...`)",
]

_FIX = None


def seeds():
    global _FIX
    if _FIX is None:
        out = []
        for origin, text in F.extract(nima.REPO):
            t = adapt(text)
            if not cst.env_ok(t) or cst.parse(t).root.has_error:
                continue
            out.append((origin, t))
        _FIX = out
    return _FIX


_TRAILING_COMMA = re.compile(r"(\n([ \t]*)[^\n]*,)(\n[ \t]*\}[ \t]*(@[ \t]*[A-Za-z_][A-Za-z0-9_'-]*)?[ \t]*:)")


def adapt(text: str) -> str:
    """Replace a trailing comma of expanded formals by an ellipsis line (pinned grammar limit)."""
    tree = cst.parse(text)
    if not tree.root.has_error or not cst.valid(tree):
        return text
    out = text
    for _ in range(5):
        m = _TRAILING_COMMA.search(out)
        if not m:
            break
        cand = out[: m.end(1)] + "\n" + m.group(2) + "..." + out[m.end(1) :]
        if cst.parse(cand).root.has_error and not cst.valid(cand):
            break
        out = cand
        if not cst.parse(out).root.has_error:
            break
    return out


# ---------------------------------------------------------------------------
# whole-line items of expanded containers


def _lines(text):
    return text.split("\n")


def whole_line_items(text):
    """[(container id, kind, first line, last line, node)] for items that occupy whole lines of an expanded container."""
    tree = cst.parse(text)
    src = tree.src
    res = []
    stack = [tree.root]

    def line_of(pos):
        return src.count(b"\n", 0, pos)

    while stack:
        n = stack.pop()
        stack.extend(n.children)
        items = None
        if n.type in ("attrset_expression", "rec_attrset_expression", "let_expression"):
            items = [("binding", it) for it in cst._binding_items(n)]
        elif n.type == "list_expression":
            items = [("element", k) for k in n.children if k.is_named and k.type != "comment"]
        if not items:
            continue
        if line_of(n.start_byte) == line_of(n.end_byte):
            continue  # inline container
        for kind, it in items:
            ls = src.rfind(b"\n", 0, it.start_byte) + 1
            le = src.find(b"\n", it.end_byte)
            le = len(src) if le == -1 else le
            before = src[ls : it.start_byte]
            after = src[it.end_byte : le]
            if before.strip() != b"":
                continue
            if after.strip() != b"" and not after.strip().startswith(b"#"):
                continue
            res.append((n.id, kind if it.type != "inherit" and it.type != "inherit_from" else "inherit", line_of(it.start_byte), line_of(it.end_byte), it))
    return res, tree


CANON_VALUES = [
    '"say \\"hi\\""', '"\\""', '"C:\\\\"', '"a\\nb"', '"${x}\\""', '"\\${x}"', "''a ''\\n b''",
    "[ ]", "{ }", "null", "true", "-1", "1.5", '"s"', '"a${b}c"', "./p", "<nixpkgs>", "a.b.c", "a.b or c", "f x", "f [ ]", "f { }",
    "lib.optionals stdenv.isDarwin [ ]", "lib.makeBinPath [ ]", "f [ 1 ] [ ]", "f { } [ ]", "a + b", "a ++ [ ]", "a // { }", "!a", "a ? b", "x: x", "{ a }: a",
    "(f x)", "[ 1 2 ]", "[ a ]", "{ a = 1; }", "if a then b else c", "with a; b", "f (g x)", "a == b", "a -> b", "[ (f x) ]",
    "''s''", "import ./x.nix", "builtins.fetchurl { }", "[ (-1) ]", "a.${b}", "a.\"b c\"", "rec { }", "f rec { }", "let a = 1; in a"[:0] or "a.b.c d",
]
_FRESH = ["alpha", "beta", "gamma", "delta", "extraAttr", "zeta", "kappa", "omega", "nu", "someName", "x1", "y2"]


def transform(r: random.Random, text: str, counter: list):
    """One random layout-preserving transformation; returns (new text, name) or (text, None)."""
    items, tree = whole_line_items(text)
    lines = _lines(text)
    kind = r.choice(["dup", "dup", "del", "swap", "comment", "blank", "literal", "rename", "dup-block", "value", "value"])
    if kind in ("dup", "dup-block", "del", "swap", "comment", "blank") and not items:
        return text, None
    if kind in ("dup", "dup-block"):
        cands = [it for it in items if it[1] in ("binding", "element") and ((it[3] > it[2]) == (kind == "dup-block"))]
        if not cands:
            return text, None
        cid, k, l1, l2, node = r.choice(cands)
        block = lines[l1 : l2 + 1]
        if k == "binding":
            ap = next((c for c in node.children if c.type == "attrpath"), None)
            if ap is None:
                return text, None
            first = ap.children[0]
            if first.type != "identifier":
                return text, None
            counter[0] += 1
            new = r.choice(_FRESH) + str(counter[0])
            col = first.start_byte - (tree.src.rfind(b"\n", 0, first.start_byte) + 1)
            old = tree.s(first)
            line0 = block[0].encode()
            block = [(line0[:col] + new.encode() + line0[col + len(old.encode()) :]).decode()] + block[1:]
        lines[l2 + 1 : l2 + 1] = block
        return "\n".join(lines), kind
    if kind == "del":
        by = {}
        for it in items:
            by.setdefault(it[0], []).append(it)
        cands = [it for its in by.values() if len(its) >= 2 for it in its]
        if not cands:
            return text, None
        cid, k, l1, l2, node = r.choice(cands)
        # keep a blank line structure sane: if both neighbours are blank, drop one
        del lines[l1 : l2 + 1]
        if 0 < l1 < len(lines) and lines[l1 - 1].strip() == "" and lines[l1].strip() == "":
            del lines[l1]
        if l1 < len(lines) and lines[l1].strip() == "" and l1 > 0 and lines[l1 - 1].rstrip().endswith(("{", "[", "let")):
            del lines[l1]
        if l1 > 0 and lines[l1 - 1].strip() == "" and l1 < len(lines) and lines[l1].strip() in ("}", "};", "]", "];", "in", "})", "]);"):
            del lines[l1 - 1]
        return "\n".join(lines), kind
    if kind == "swap":
        by = {}
        for it in items:
            by.setdefault(it[0], []).append(it)
        pairs = []
        for its in by.values():
            its.sort(key=lambda x: x[2])
            for a, b in zip(its, its[1:]):
                if b[2] == a[3] + 1:
                    pairs.append((a, b))
        if not pairs:
            return text, None
        a, b = r.choice(pairs)
        la = lines[a[2] : a[3] + 1]
        lb = lines[b[2] : b[3] + 1]
        lines[a[2] : b[3] + 1] = lb + la
        return "\n".join(lines), kind
    if kind == "comment":
        cid, k, l1, l2, node = r.choice(items)
        indent = len(lines[l1]) - len(lines[l1].lstrip(" "))
        counter[0] += 1
        lines.insert(l1, " " * indent + r.choice(["# note %d", "# TODO(%d): check", "# see issue %d", "#\tkey = %d; (tab behind the hash)", "#\u00a0note %d", "#\u3000note %d", "#note %d", "##  note %d"]) % counter[0])
        return "\n".join(lines), kind
    if kind == "blank":
        cid, k, l1, l2, node = r.choice(items)
        if l1 == 0 or lines[l1 - 1].strip() == "" or lines[l1 - 1].rstrip().endswith(("{", "[", "let", "(")):
            return text, None
        if lines[l1 - 1].lstrip().startswith("#"):
            return text, None
        lines.insert(l1, "")
        return "\n".join(lines), kind
    if kind == "value":
        # replace the value of a one-line binding by another one-line value in canonical form
        cands = []
        for cid, k, l1, l2, node in items:
            if k != "binding" or l1 != l2:
                continue
            val = next((c for c in node.children if c.type not in ("attrpath", "=", ";", "comment")), None)
            if val is not None and val.type in ("integer_expression", "string_expression", "variable_expression", "select_expression", "list_expression", "attrset_expression", "float_expression", "path_expression", "apply_expression"):
                cands.append(val)
        if not cands:
            return text, None
        val = r.choice(cands)
        new = r.choice(CANON_VALUES)
        b = tree.src
        return (b[: val.start_byte] + new.encode() + b[val.end_byte :]).decode(), kind
    toks = cst.tokens(tree)
    if kind == "literal":
        cands = [t for t in toks if t.kind == "integer_expression" or (t.kind == "str" and re.fullmatch(r"[A-Za-z0-9 ._-]+", t.text))]
        if not cands:
            return text, None
        t = r.choice(cands)
        if t.kind == "integer_expression":
            new = str(r.randint(0, 10 ** min(len(t.text), 6)))
        else:
            new = "".join(r.choice("abcxyz019-_. ") for _ in range(r.randint(1, max(1, min(len(t.text) + 3, 30))))).strip() or "v"
        b = tree.src
        return (b[: t.start] + new.encode() + b[t.end :]).decode(), kind
    if kind == "rename":
        heads = []
        stack = [tree.root]
        while stack:
            n = stack.pop()
            stack.extend(n.children)
            if n.type == "binding":
                ap = next((c for c in n.children if c.type == "attrpath"), None)
                if ap is not None and ap.children and ap.children[0].type == "identifier" and len(ap.children) == 1:
                    heads.append(ap.children[0])
                elif ap is not None and len(ap.children) > 1:
                    # any bare segment of a dotted name (the family it belonged to simply becomes another one)
                    heads.extend(c for c in ap.children if c.type == "identifier")
        if not heads:
            return text, None
        h = r.choice(heads)
        counter[0] += 1
        new = r.choice(_FRESH) + str(counter[0])
        if r.random() < 0.25:
            # a name that has to be quoted (non-ASCII, space, dot, hyphen-digit): canonical as written
            new = '"' + r.choice(["café-müller", "日本", "x y", "a.b", "1st", "ελληνικά"]) + str(counter[0]) + '"'
        b = tree.src
        return (b[: h.start_byte] + new.encode() + b[h.end_byte :]).decode(), kind
    return text, None


def acceptable(text):
    if not cst.env_ok(text):
        return False
    if any(len(ln) > 100 for ln in text.split("\n")):
        return False
    if cst.parse(text).root.has_error:
        return False
    if re.search(r"\n[ \t]*\n[ \t]*\n", text):
        return False
    return True


def judge(text):
    nima.reset_state()
    try:
        out = nima.rt(text)
    except Exception as e:  # noqa: BLE001
        return [(f"raises:{type(e).__name__}", {"msg": str(e)[:100]})]
    fails = []
    if out != text:
        i = next((k for k, (a, b) in enumerate(zip(out, text)) if a != b), min(len(out), len(text)))
        kind = "final-newline" if out.rstrip("\n") == text.rstrip("\n") else "layout"
        fails.append((f"not-reproduced:{kind}", {"at": i, "expected": text[max(0, i - 60) : i + 60], "got": out[max(0, i - 60) : i + 60]}))
    else:
        code, so, se, exc = nima.cli(["test"], text)
        if exc is not None or (so, code) != ("OK\n", 0):
            fails.append(("cli-test-rejects-canonical", {"stdout": so, "code": code}))
    return fails


def idiom(r):
    """nixpkgs-style file head: lambda head, then `with …;` / `assert …;` statements separated by single blank lines
    (optionally an own-line comment in front of one of them), then a package body."""
    head = r.choice(["{ lib, stdenv }:", "{ lib, stdenv, fetchurl }:", "{\n  lib,\n  stdenv,\n  fetchurl,\n  ...\n}:", "{ pkgs, ... }:", "pkgs:"])
    if r.random() < 0.35:
        # multi-line formals with the trivia nixpkgs heads carry: end-of-line comments, groups separated by one blank
        # line, own-line comments in front of a formal, defaults; always closed by `...` (a trailing comma is an
        # environment limit of the pinned grammar)
        names = r.sample(["lib", "stdenv", "fetchurl", "zlib", "openssl", "python3", "enableFoo", "withGui", "cmake"], r.randint(2, 6))
        hl = ["{"]
        for i, nm in enumerate(names):
            if i and r.random() < 0.3:
                hl.append("")
            if i and r.random() < 0.3:
                hl.append(r.choice(["  # optional features", "  # build inputs", "  # see issue 7"]))
            ln = "  " + nm + (r.choice([" ? null", " ? false", " ? true", ' ? "x"']) if r.random() < 0.3 else "") + ","
            if r.random() < 0.3:
                ln += r.choice([" # fetches the tarball", " # the build environment", " # TODO"])
            hl.append(ln)
        if r.random() < 0.2:
            hl.append("")
        hl += ["  ...", "}:"]
        head = "\n".join(hl)
    stmts = []
    for _ in range(r.randint(1, 3)):
        stmts.append(r.choice(["with lib;", "with pkgs;", "assert stdenv.isLinux;", "assert enableFoo -> foo != null;", "assert lib.assertMsg ok \"message\";"]))
    body = r.choice([
        "stdenv.mkDerivation {\n  pname = \"x\";\n  version = \"1.0\";\n}",
        "stdenv.mkDerivation rec {\n  pname = \"x\";\n  version = \"1.0\";\n\n  meta = with lib; {\n    license = licenses.mit;\n  };\n}",
        "{\n  a = 1;\n  b = [ 1 2 ];\n}",
        "buildPythonPackage {\n  pname = \"x\";\n\n  doCheck = false;\n}",
    ])
    if r.random() < 0.4:
        # a `++` / `//` chain with the operators at line starts and a comment in front of one of the later operators
        op = r.choice(["++", "//"])
        o, c = ("[", "]") if op == "++" else ("{", "}")
        item = (lambda k: f"    dep{k}") if op == "++" else (lambda k: f"    key{k} = {k};")
        n = r.randint(3, 5)
        cpos = r.randrange(1, n)
        lines = [f"  inputs = {o}", item(0), f"  {c}"]
        for k in range(1, n):
            if k == cpos or r.random() < 0.2:
                lines.append(r.choice(["  # Darwin needs this", "  # see issue 42", "  # optional"]))
            lines.append(f"  {op} lib.option{'als' if op == '++' else 'alAttrs'} cond{k} {o}")
            lines.append(item(k))
            lines.append(f"  {c}")
        lines[-1] += ";"
        body = "stdenv.mkDerivation {\n  pname = \"x\";\n" + "\n".join(lines) + "\n}"
    parts = [head]
    blank = r.random() < 0.7  # one style per file: statements separated by blank lines, or directly below each other
    for st_ in stmts + [body]:
        if blank:
            parts.append("")
        if r.random() < 0.25:
            parts.append(r.choice(["# needed on darwin", "# see issue 42", "# TODO: drop"]))
        parts.append(st_)
    return "\n".join(parts) + "\n"


def replay(case):
    return judge(case["text"])


def plan(tier):
    return {"shards": 16, "examples": 300 if tier == "quick" else 8000, "wall_limit": 300 if tier == "quick" else 2400}


def run_shard(sh):
    examples = int(sh.params["examples"] * sh.params.get("scale", 1.0))
    fx = seeds()
    weights = [1 + min(text.count("\n"), 40) for _o, text in fx]
    blocked_origins = {q["origin"] for q in (sh.quarantine or []) if "origin" in q}
    # every fixture verbatim first (sharded)
    for i, (origin, text) in enumerate(fx):
        if i % sh.nshards != sh.index:
            continue
        case = {"text": text, "origin": origin, "transforms": []}
        fails = judge(text)
        sh.record(case, "#" in text or "\n\n" in text, ["verbatim"])
        for k, d in fails:
            sh.fail(f"{k}|verbatim|{origin.split('::')[-1]}", case, d)

    @seed(sh.hseed)
    @settings(max_examples=examples, database=None, deadline=None, suppress_health_check=list(HealthCheck), phases=[Phase.generate])
    @given(st.integers(0, 2**48))
    def prop(n):
        if sh.over_budget():
            sh.skipped_budget += 1
            return
        sh.now(n)
        r = random.Random(n)
        if r.random() < 0.12:
            text = idiom(r)
            origin, applied = "idiom", ["idiom"]
        elif r.random() < 0.2:
            # package-idiom printer, restricted to shapes the fixtures witness (no parentheses around the body)
            for _ in range(12):
                doc, text = D.make(r.randrange(2**40), with_ident_env=True, blank_close=False)
                # only wrapper shapes whose layout the fixtures witness: `{ formals }:` heads, let blocks, call heads
                if all(w[0] in ("let", "call") or (w[0] == "lambda" and not w[1].startswith("x:")) for w in doc.wrappers):
                    break
            else:
                return
            origin, applied = "printer", ["printer"]
        else:
            origin, text = r.choices(fx, weights=weights)[0]
            if origin in blocked_origins:
                sh.excluded += 1
                return
            applied = []
            counter = [0]
            for _ in range(r.choice([0, 1, 2, 3, 5, 8, 13, 20, 40, 80])):
                new, name = transform(r, text, counter)
                if name is None or not acceptable(new):
                    continue
                text = new
                applied.append(name)
        if not acceptable(text):
            sh.notes["not-acceptable"] += 1
            return
        case = {"text": text, "origin": origin, "transforms": applied}
        fails = judge(text)
        nontriv = len(applied) >= 3 and ("#" in text or "\n\n" in text)
        if origin in ("printer", "idiom"):
            nontriv = "#" in text or "\n\n" in text
        nb = text.count(" = ")
        sh.record(case, nontriv, ["origin:" + origin.split("::")[-1][:40], f"transforms:{min(len(applied), 10)}", f"bindings:{min(nb // 10 * 10, 80)}"] + ["t:" + a for a in set(applied)])
        for k, d in fails:
            # minimise: replay prefixes of the transformation sequence is not possible after the fact; keep the smallest text per signature
            sh.fail(f"{k}|{origin.split('::')[-1]}", case, d)

    prop()
