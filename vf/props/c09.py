"""C09 — scope selectors address exactly the intended let layer."""

from vf.props import c05 as base

ID = "C09"
LEVEL = "exploration"
RULE = (
    "Same document generator and reference model as C05, with 0-3 let layers around every editable shape and binding names drawn from a small "
    "pool so that one name recurs in several layers and in the body; 80% of the operations are scoped (`@`..`@@@` and one level deeper than exists), "
    "histories of 1-8 steps on one object or with re-parse. Oracle: the let chain read back by the independent reader has the modelled number of "
    "layers, each layer's attribute tree equals the model (only layer -n changed; one innermost layer created for `@x` with zero layers; an emptied "
    "layer vanishes and only it), the body set and the wrapper tokens are unchanged, the output is valid, and selectors beyond the existing layers "
    "are refused. Non-trivial = >=2 layers or a non-bare wrapper shape."
)
ASSUMPTIONS = base.ASSUMPTIONS

plan = base.plan


def replay(case):
    base.STRICT_SCOPE = True
    return base.replay(case)


def run_shard(sh):
    base.STRICT_SCOPE = True
    base.run_shard(sh, scoped_bias=0.8, kw={"max_lets": 3})
