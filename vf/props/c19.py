"""C19 — edits compose predictably: repeatable, reversible, order-independent."""

import copy
import itertools
import random

from hypothesis import HealthCheck, Phase, given, seed, settings
from hypothesis import strategies as st

from vf import cst, nima
from vf.gen import docs as D
from vf.model import attrs as A
from vf.props import c05 as base
from vf.props import edit_common as E

ID = "C19"
LEVEL = "exploration"
RULE = (
    "Canonical documents (reproduced byte for byte by nima) from the C05 generator, without bound references. Four laws, each on one object "
    "and with a re-parse between the steps: (a) `set p v` twice == once (p existing, fresh, nested, attrpath, scoped); (b) `set` of a fresh "
    "single-segment or @-prefixed path then `rm` of it restores the original bytes; (c) `rm p` then `set p <old value>` restores the attribute "
    "tree (as a path->value map; order may differ); (d) two or three `set`s on distinct, non-prefix-related existing paths give the same text in "
    "every order. Paths/values come from the reference model so that every step is well-formed. Non-trivial = the document has >=1 wrapper or "
    "the path is nested/attrpath/scoped."
)
ASSUMPTIONS = base.ASSUMPTIONS

VALS = E.SINGLE_LINE_VALUES
INLINE_DOCS = ["{ a = 1; }\n", "{ pkgs }:\n{ a = 1; }\n", "{ }\n", "{ a = { b = 1; }; }\n", "let\n  v = 1;\nin\n{ a = v; }\n", "f { a = 1; }\n"]


def _apply_seq(text, seq, same_object):
    """Apply [(op, path, value)] -> final text, or raise."""
    if same_object:
        src = nima.parse(text)
        out = text
        for op, path, value in seq:
            out = nima.set_value(src, path, value) if op == "set" else nima.remove_value(src, path)
        return out
    out = text
    for op, path, value in seq:
        src = nima.parse(out)
        out = nima.set_value(src, path, value) if op == "set" else nima.remove_value(src, path)
    return out


def _value_text(view, S, depth):
    """Source text of the current value at path S (for law c)."""
    from vf.props.c04 import locate, _value_node

    container = view.core_node if depth == 0 else view.let_nodes[len(view.let_nodes) - depth]
    parent, b = locate(view.tree, container, S)
    if b is None:
        return None
    v = _value_node(b)
    return view.tree.s(v) if v is not None else None


def laws(text, r: random.Random, flags):
    """Yield (law, description, check()) tuples for a canonical document."""
    view = A.View(text)
    model = A.Model(view)
    nl = len(model.layers)
    scoped_ok = not ((flags.get("no_scoped_on_call") and view.kinds and view.kinds[-1] == "call") or (flags.get("scoped_needs_adjacent_lets") and not view.lets_adjacent()) or (flags.get("no_scoped_in_paren") and "paren" in view.kinds))
    out = []

    def targets(depth):
        tgt = model.core if depth == 0 else model.layers[-depth]
        return E.all_paths(tgt, descend_family_sets=not flags.get("no_descend_family_sets", True))

    depth_choices = [0, 0, 0] + ([d for d in range(1, nl + 1)] if scoped_ok else [])
    # (a) idempotence
    for _ in range(2):
        depth = r.choice(depth_choices)
        defs = [p for p, e in targets(depth)]
        kind = r.choice(["existing", "fresh", "nested"])
        if kind == "existing" and defs:
            S = r.choice(defs)
        elif kind == "nested":
            S = (r.choice(["nn", "n2"]), r.choice(["k", "j"]))
        else:
            S = (r.choice(["fresh1", "zz", "foo-bar"]),)
        path = E.enc(S, depth)
        v = r.choice(VALS)
        m = copy.deepcopy(model)
        try:
            m.apply("set", path, v)
        except (A.Refuse, A.Unspecified):
            continue
        out.append(("a-idempotent", f"set {path} {v}", [("set", path, v)], [("set", path, v), ("set", path, v)], "equal-text"))
    # (b) set fresh then rm restores bytes
    for _ in range(2):
        depth = r.choice([0, 0] + ([d for d in range(1, nl + 1)] if scoped_ok else []))
        create_layer = False
        if nl == 0 and scoped_ok and "alias" not in view.kinds and r.random() < 0.3 and not (flags.get("no_create_layer_under_with") and view.kinds and view.kinds[-1] in ("with", "assert")):
            # `set @x` creates the one innermost layer, `rm @x` drops it again
            depth, create_layer = 1, True
        name = r.choice(["fresh1", "zz", "added", "foo-bar", "n9"])
        if create_layer and r.random() < 0.4:
            # a name the body only inherits, or the root of dotted bindings of the body: no binding of the body has that
            # path, so `@name` is as fresh as any other
            special = sorted({e["path"][0] for e in model.core if e["inh"] is not None} | {e["path"][0] for e in model.core if e["inh"] is None and len(e["path"]) > 1})
            if special:
                name = r.choice(special)
        path = E.enc((name,), depth)
        m = copy.deepcopy(model)
        try:
            notes = m.apply("set", path, "1")
        except (A.Refuse, A.Unspecified):
            continue
        if "replace" in notes:
            continue
        v = r.choice(E.VALUES)  # multi-line values too: adding and removing them must not leave the set expanded
        out.append(("b-set-rm-restores", f"set {path} {v}; rm {path}", [], [("set", path, v), ("rm", path, None)], "equal-original-nl" if create_layer else "equal-original"))
    # (c) rm then set old value restores tree
    for _ in range(2):
        depth = r.choice(depth_choices)
        defs = [(p, e) for p, e in targets(depth)]
        if not defs:
            continue
        S, e = r.choice(defs)
        old = _value_text(view, S, depth)
        if old is None or "\n" in old and False:
            continue
        path = E.enc(S, depth)
        m = copy.deepcopy(model)
        try:
            n1 = m.apply("rm", path)
            if "drop-layer" in n1:
                continue
            m.apply("set", path, old)
        except (A.Refuse, A.Unspecified):
            continue
        out.append(("c-rm-set-restores-tree", f"rm {path}; set {path} <old>", [], [("rm", path, None), ("set", path, old)], "equal-tree"))
    # (d) order independence of sets on distinct existing, non-prefix-related paths
    depth = 0
    defs = [p for p, e in targets(0)]
    r.shuffle(defs)
    chosen = []
    for p in defs:
        if all(not (p[: len(q)] == q or q[: len(p)] == p) for q in chosen):
            chosen.append(p)
        if len(chosen) == 3:
            break
    if len(chosen) >= 2:
        k = 3 if len(chosen) == 3 and r.random() < 0.4 else 2
        sets = [("set", E.enc(p, 0), r.choice(VALS)) for p in chosen[:k]]
        ok = True
        m = copy.deepcopy(model)
        for s_ in sets:
            try:
                m.apply(*s_)
            except (A.Refuse, A.Unspecified):
                ok = False
        if ok:
            out.append(("d-order-independent", " / ".join(f"set {p} {v}" for _, p, v in sets), None, sets, "all-orders"))
        plain = [p for p in chosen if len(p) == 1]
        if len(plain) >= 2 and r.random() < 0.5:
            chosen = plain
            # both paths first receive the same set literal (the same VALUE text), then one member of each is set: still
            # two sets on different existing paths
            lit = r.choice(["{ k = 1; }", "{ k = 1; j = [ 1 2 ]; }", "{\n  k = 1;\n}"])
            pa, pb = chosen[0], chosen[1]
            prefix = [("set", E.enc(pa, 0), lit), ("set", E.enc(pb, 0), lit)]
            below = [("set", E.enc(pa + ("k",), 0), "5"), ("set", E.enc(pb + ("k",), 0), "6")]
            m = copy.deepcopy(model)
            try:
                for s_ in prefix + below:
                    m.apply(*s_)
                out.append(("d-order-independent", "same literal at two paths, then " + " / ".join(f"set {p} {v}" for _, p, v in below), prefix, below, "all-orders-after-prefix"))
            except (A.Refuse, A.Unspecified):
                pass
    return out


def check_law(text, law, same_object):
    """Returns list of (kind, detail)."""
    name, desc, seq_a, seq_b, how = law
    try:
        if how == "equal-text":
            a = _apply_seq(text, seq_a, same_object)
            b = _apply_seq(text, seq_b, same_object)
            if a != b:
                return [(name, {"desc": desc, "once": a[:400], "twice": b[:400]})]
        elif how in ("equal-original", "equal-original-nl"):
            b = _apply_seq(text, seq_b, same_object)
            if how == "equal-original-nl" and b.rstrip("\n") == text.rstrip("\n"):
                b = text  # the final newline after dropping the only layer is finding F11 (pinned by a repository test)
            if b != text:
                return [(name, {"desc": desc, "original": text[:400], "after": b[:400]})]
        elif how == "equal-tree":
            b = _apply_seq(text, seq_b, same_object)
            va, vb = A.View(text), A.View(b)
            if not vb.valid or vb.core is None:
                return [(name + ":invalid", {"desc": desc, "after": b[:400]})]
            if A.flat(va.core["set"]) != A.flat(vb.core["set"]) or [A.flat(l) for l in va.layers] != [A.flat(l) for l in vb.layers]:
                return [(name, {"desc": desc, "original": text[:400], "after": b[:400]})]
        elif how == "all-orders-after-prefix":
            results = {}
            for perm in itertools.permutations(seq_b):
                results[tuple(p for _, p, _ in perm)] = _apply_seq(text, list(seq_a) + list(perm), same_object)
            if len(set(results.values())) != 1:
                vals = list(results.items())
                return [(name, {"desc": desc, "order1": list(vals[0][0]), "text1": vals[0][1][:400], "order2": list(vals[-1][0]), "text2": vals[-1][1][:400]})]
        elif how == "all-orders":
            results = {}
            for perm in itertools.permutations(seq_b):
                results[tuple(p for _, p, _ in perm)] = _apply_seq(text, list(perm), same_object)
            if len(set(results.values())) != 1:
                vals = list(results.items())
                return [(name, {"desc": desc, "order1": list(vals[0][0]), "text1": vals[0][1][:400], "order2": list(vals[-1][0]), "text2": vals[-1][1][:400]})]
    except Exception as e:  # noqa: BLE001
        return [(name + ":raises:" + type(e).__name__, {"desc": desc, "exc": E.exc_sig(e), "msg": str(e)[:100]})]
    return []


def replay(case):
    law = tuple(case["law"])
    seq_a = [tuple(x) for x in law[2]] if law[2] is not None else None
    seq_b = [tuple(x) for x in law[3]]
    return check_law(case["doc"], (law[0], law[1], seq_a, seq_b, law[4]), case["same_object"])


def plan(tier):
    return {"shards": 16, "examples": 250 if tier == "quick" else 6000, "wall_limit": 300 if tier == "quick" else 2400}


def run_shard(sh):
    examples = int(sh.params["examples"] * sh.params.get("scale", 1.0))
    doc_kw, op_kw, flags = base.params_from_quarantine(sh.quarantine)
    flags = dict(flags)
    flags["no_descend_family_sets"] = op_kw.get("descend_family_sets", True) is False
    blocked_laws = {q["law"] for q in (sh.quarantine or []) if "law" in q}

    @seed(sh.hseed)
    @settings(max_examples=examples, database=None, deadline=None, suppress_health_check=list(HealthCheck), phases=[Phase.generate])
    @given(st.integers(0, 2**48))
    def prop(n):
        if sh.over_budget():
            sh.skipped_budget += 1
            return
        sh.now(n)
        r = random.Random(n)
        doc, text = D.make(n, **dict(doc_kw, blank_close=False))  # a blank line in front of `}` / `in` is not canonical (law b)
        if r.random() < 0.1:
            text = r.choice(INLINE_DOCS)  # sets written on one line
        nima.reset_state()
        try:
            if nima.rt(text) != text:
                sh.notes["not-canonical"] += 1
                return
        except Exception:  # noqa: BLE001
            sh.notes["doc-refused"] += 1
            return
        view = A.View(text)
        if not view.valid or view.core is None:
            return
        for law in laws(text, r, flags):
            same_object = r.random() < 0.5
            if law[0] == "b-set-rm-restores" and any("\n" in (x[2] or "") for x in law[3]):
                # a multi-line value expands an inline set; once that text is re-parsed the set *is* an expanded set and
                # stays one, so the byte law is stated for one parsed object only
                same_object = True
            scoped = "@" in law[1]
            sig_extra = f"{'scoped' if scoped else 'plain'}|{base.shape_sig(view) if scoped else '*'}"
            if any(b == law[0] or b == f"{law[0]}|{'scoped' if scoped else 'plain'}" for b in blocked_laws):
                sh.excluded += 1
                continue
            fails = check_law(text, law, same_object)
            case = {"doc": text, "law": [law[0], law[1], [list(x) for x in law[2]] if law[2] is not None else None, [list(x) for x in law[3]], law[4]], "same_object": same_object}
            nontriv = bool(view.kinds) or scoped or "." in law[1].split()[1]
            sh.record(case, nontriv, ["law:" + law[0], "scoped" if scoped else "plain", "same-object" if same_object else "reparse", "shape:" + base.shape_sig(view)])
            for k, d in fails:
                sh.fail(f"{k}|{sig_extra}|{'same-object' if same_object else 'reparse'}", case, d)

    prop()
