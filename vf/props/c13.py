"""C13 — values built programmatically render to Nix that denotes the same value."""

import math
import random

from hypothesis import HealthCheck, Phase, given, seed, settings
from hypothesis import strategies as st

from vf import cst, nima
from vf.props.rt_common import innermost_frame

ID = "C13"
LEVEL = "exploration"
RULE = (
    "Recursive Python values (dict with identifier keys, list of scalars/lists, str over the escaping alphabet without '${', int incl. 64-bit "
    "extremes, bool, None, finite float incl. -0.0, exponents, subnormals) are handed to every construction context: AttributeSet.from_dict, "
    "AttributeSet({...}), Binding(value=...) inside a set, NixList([...]), item assignment into a parsed '{ }', into a nested set and into a "
    "scope mapping. Oracle: rendered text is valid; read back as data by the independent CST reader it equals the original (strings char for "
    "char, ints exactly, floats by value and sign of zero, order kept); rendering twice gives identical text; parse+rebuild of the text is "
    "identical. Non-trivial = contains a character needing escape, a negative/exponent number, or nesting >= 2."
)
ASSUMPTIONS = ["NUL excluded from strings (tree-sitter limit)", "tree-sitter-nix 0.1.0 + vf.cst.to_data define how Nix reads the text back"]

from nix_manipulator.expressions.binding import Binding  # noqa: E402
from nix_manipulator.expressions.list import NixList  # noqa: E402
from nix_manipulator.expressions.set import AttributeSet  # noqa: E402

_STR_ATOMS = ['"', "\\", "\n", "\r", "\t", "$", "{", "}", "''", " ", "a", "b", "é", "日", "$$", "\\n", "\\\\", "#", "/*", "*/", "'", "${"[0], "\\$", "x", "1", " ", "\x7f", "\x01"]
_KEYS = ["a", "b", "c", "foo", "bar", "x'", "a-b", "_z", "version", "meta", "A1", "foo_bar", "x''", "b-"]


def strings():
    return st.one_of(st.lists(st.sampled_from(_STR_ATOMS), max_size=8).map("".join), st.text(max_size=20)).map(lambda s: s.replace("\x00", "").replace("${", "$ {"))


def floats():
    return st.one_of(
        st.sampled_from([0.0, -0.0, 1.0, -1.0, 1.5, 0.1, 1e16, 1e-7, 1e308, 5e-324, 2.5e-5, 1e22, 1e21, 123456789.125, -2.5e-10, 1e100, 3.0e10]),
        st.floats(allow_nan=False, allow_infinity=False),
    )


def ints():
    return st.one_of(st.integers(-20, 20), st.sampled_from([0, -1, 2**63 - 1, -(2**63) + 1, 2**31, -(2**31), 10**18]), st.integers(-(2**63) + 1, 2**63 - 1))


def scalars():
    return st.one_of(st.none(), st.booleans(), ints(), floats(), strings())


def lists(depth=2):
    elem = scalars() if depth == 0 else st.one_of(scalars(), scalars(), st.deferred(lambda: lists(depth - 1)))
    return st.lists(elem, max_size=4)


def dicts(depth=2):
    val = st.one_of(scalars(), scalars(), lists(1)) if depth == 0 else st.one_of(scalars(), scalars(), lists(2), st.deferred(lambda: dicts(depth - 1)))
    return st.dictionaries(st.sampled_from(_KEYS), val, max_size=4)


def values():
    return st.one_of(scalars(), lists(2), dicts(2), dicts(2))


def same(a, b) -> bool:
    if isinstance(a, bool) or isinstance(b, bool):
        return type(a) is type(b) and a == b
    if a is None or b is None:
        return a is None and b is None
    if isinstance(a, float) or isinstance(b, float):
        if not (isinstance(a, (int, float)) and isinstance(b, (int, float))):
            return False
        if isinstance(a, float) != isinstance(b, float):
            return False  # an int must stay an int, a float a float
        return a == b and math.copysign(1, a) == math.copysign(1, b)
    if isinstance(a, int) and isinstance(b, int):
        return a == b
    if isinstance(a, str) and isinstance(b, str):
        return a == b
    if isinstance(a, list) and isinstance(b, list):
        return len(a) == len(b) and all(same(x, y) for x, y in zip(a, b))
    if isinstance(a, dict) and isinstance(b, dict):
        return list(a.keys()) == list(b.keys()) and all(same(a[k], b[k]) for k in a)
    return False


CONTEXTS = ["from_dict", "ctor_dict", "binding", "nixlist", "setitem_parsed", "setitem_nested", "scope_setitem", "setitem_overwrite", "setitem_overwrite_nested", "overwrite_after_render", "overwrite_after_failed_render", "setitem_over_parsed", "attrpath_leaf", "attrpath_leaf_after_render"]


def build(ctx, value, first=None):
    """Return (rendered text, extractor(data)->value, second render text)."""
    if ctx == "from_dict":
        obj = AttributeSet.from_dict(value)
        return obj, (lambda d: d)
    if ctx == "ctor_dict":
        obj = AttributeSet(value)
        return obj, (lambda d: d)
    if ctx == "binding":
        obj = AttributeSet(values=[Binding(name="v", value=value), Binding(name="w", value=1)])
        return obj, (lambda d: d["v"])
    if ctx == "nixlist":
        obj = NixList(value)
        return obj, (lambda d: d)
    if ctx == "setitem_parsed":
        src = nima.parse("{ }")
        src["v"] = value
        return src, (lambda d: d["v"])
    if ctx == "setitem_nested":
        src = nima.parse("{\n  n = {\n    k = 1;\n  };\n}\n")
        src["n"]["v"] = value
        return src, (lambda d: d["n"]["v"])
    if ctx == "setitem_overwrite":
        # history: the key already holds another programmatically assigned value
        src = nima.parse("{ }")
        src["v"] = first if first is not None else {"old": 1, "gone": [1, 2]}
        src["v"] = value
        return src, (lambda d: d["v"])
    if ctx == "setitem_overwrite_nested":
        src = nima.parse("{\n  n = {\n    v = {\n      old = 1;\n      gone = 2;\n    };\n  };\n}\n")
        if first is not None:
            src["n"]["v"] = first
        src["n"]["v"] = value
        return src, (lambda d: d["n"]["v"])
    if ctx in ("overwrite_after_render", "overwrite_after_failed_render"):
        # history with renders in between: what was rendered before an assignment must not show up after it;
        # in the second variant a render that fails (NaN has no Nix spelling) happened earlier in the same thread
        if ctx == "overwrite_after_failed_render":
            try:
                AttributeSet.from_dict({"ok": 1, "ratio": float("nan")}).rebuild()
            except Exception:  # noqa: BLE001 - how non-finite floats are refused is not this context's business
                pass
        src = nima.parse("{\n  n = {\n    k = 1;\n  };\n}\n")
        src["v"] = first if first is not None else {"old": 1, "gone": [1, 2]}
        src["n"]["v"] = first if first is not None else "old"
        src.rebuild()
        src["v"] = value
        src["n"]["v"] = value
        return src, (lambda d: d["v"] if same(d["v"], d["n"]["v"]) else ["top and nested differ", d["v"], d["n"]["v"]])
    if ctx == "setitem_over_parsed":
        # the key already holds a value that came from the parser (string, int, list, set): nothing of it may survive
        old = "\"old\"" if not isinstance(first, dict) else "{ k = 1; }"
        if isinstance(first, list):
            old = "[ 1 2 ]"
        elif isinstance(first, (int, float)) and not isinstance(first, bool):
            old = "7"
        src = nima.parse("{\n  v = %s; # c\n  n = {\n    v = %s;\n  };\n}\n" % (old, old))
        src["v"] = value
        src["n"]["v"] = value
        return src, (lambda d: d["v"] if same(d["v"], d["n"]["v"]) else ["top and nested differ", d["v"], d["n"]["v"]])
    if ctx in ("attrpath_leaf", "attrpath_leaf_after_render"):
        # the key was written in attrpath form (`m.v = …;`); in the second variant the document was rendered (rebuild, or a
        # CLI edit of another key, which rebuilds) before the assignment
        old = "\"old\"" if not isinstance(first, dict) else "{ k = 1; }"
        src = nima.parse("{\n  m.v = %s;\n  m.w = 2;\n  n.deep.v = %s; # c\n  other = 1;\n}\n" % (old, old))
        if ctx == "attrpath_leaf_after_render":
            if isinstance(first, (list, str)):
                nima.set_value(src, "other", "2")
            else:
                src.rebuild()
        if first is None or isinstance(first, (dict, bool)):
            # a new sibling behind the deeper dotted member `n.deep.v` (own leg: a new key makes the set drop its recorded order)
            src["n"]["fresh"] = value
            return src, (lambda d: d["n"].get("fresh", "<n.fresh missing>"))
        src["m"]["v"] = value
        src["n"]["deep"]["v"] = value
        return src, (lambda d: d["m"]["v"] if same(d["m"]["v"], d["n"]["deep"]["v"]) else ["top and nested differ", d["m"]["v"], d["n"]["deep"]["v"]])
    if ctx == "scope_setitem":
        src = nima.parse("let\n  k = 1;\nin\n{ a = k; }\n")
        src.expr.scope["v"] = value
        return src, None
    raise ValueError(ctx)


def applicable(ctx, value):
    if ctx in ("from_dict", "ctor_dict"):
        return isinstance(value, dict)
    if ctx == "nixlist":
        return isinstance(value, list)
    return True


def _read(text):
    tree = cst.parse(text)
    if cst.errors(tree):
        return "invalid", None
    tops = cst.top_expressions(tree)
    if len(tops) != 1:
        return "not-one-expression", None
    try:
        return "ok", cst.to_data(tree, tops[0])
    except cst.NotData as e:
        return f"not-data:{e}", None


def _read_scope_value(text):
    tree = cst.parse(text)
    if cst.errors(tree):
        return "invalid", None
    tops = cst.top_expressions(tree)
    if len(tops) != 1 or tops[0].type != "let_expression":
        return "not-a-let", None
    for b in cst.attr_items(tree, tops[0], recurse=False):
        if b.path == ("v",) and b.value_node is not None:
            try:
                return "ok", cst.to_data(tree, b.value_node)
            except cst.NotData as e:
                return f"not-data:{e}", None
    return "binding-missing", None


def judge(ctx, value, first=None):
    nima.reset_state()
    try:
        obj, extract = build(ctx, value, first)
        t1 = obj.rebuild()
        t2 = obj.rebuild()
    except Exception as e:  # noqa: BLE001
        return [(f"construction-raises:{type(e).__name__}@{innermost_frame(e)}", {"msg": str(e)[:100]})]
    fails = []
    if t1 != t2:
        fails.append(("render-twice-differs", {"t1": t1[:150], "t2": t2[:150]}))
    if extract is None:
        st_, data = _read_scope_value(t1)
        got = data
    else:
        st_, data = _read(t1)
        got = None
        if st_ == "ok":
            try:
                got = extract(data)
            except Exception:  # noqa: BLE001
                st_ = "extract-failed"
    if st_ != "ok":
        fails.append((f"readback-{st_.split(':')[0]}", {"text": t1[:200], "why": st_}))
        return fails
    if not same(value, got):
        fails.append(("value-differs", {"text": t1[:200], "expected": repr(value)[:120], "got": repr(got)[:120]}))
    if cst.env_ok(t1):
        try:
            t3 = nima.rt(t1)
            if t3 != t1:
                fails.append(("reparse-unstable", {"t1": t1[:150], "t3": t3[:150]}))
        except Exception as e:  # noqa: BLE001
            fails.append((f"reparse-raises:{type(e).__name__}", {"text": t1[:150]}))
    return fails


def features(value, top=True, acc=None, depth=0):
    acc = acc if acc is not None else set()
    if isinstance(value, bool):
        acc.add("bool")
    elif value is None:
        acc.add("null")
    elif isinstance(value, int):
        acc.add("int-neg" if value < 0 else "int")
    elif isinstance(value, float):
        r = repr(value)
        acc.add("float-neg" if math.copysign(1, value) < 0 else "float")
        if "e" in r:
            acc.add("float-exp" + ("-nodot" if "." not in r else ""))
    elif isinstance(value, str):
        for ch, nm in (('"', "dq"), ("\\", "bs"), ("\n", "nl"), ("\r", "cr"), ("\t", "tab"), ("$", "dollar"), ("''", "sq2")):
            if ch in value:
                acc.add("str-" + nm)
        if any(ord(c) > 127 for c in value):
            acc.add("str-nonascii")
        if not acc & {"str-dq", "str-bs", "str-nl", "str-cr", "str-tab", "str-dollar"}:
            acc.add("str-plain")
    elif isinstance(value, list):
        acc.add(f"list@{min(depth, 2)}" if value else "list-empty")
        for x in value:
            features(x, False, acc, depth + 1)
    elif isinstance(value, dict):
        acc.add(f"dict@{min(depth, 2)}" if value else "dict-empty")
        if len(value) == 1:
            acc.add("dict-single")
        for x in value.values():
            features(x, False, acc, depth + 1)
    return acc


def nesting(value, d=0):
    if isinstance(value, list):
        return max([nesting(x, d + 1) for x in value], default=d + 1)
    if isinstance(value, dict):
        return max([nesting(x, d + 1) for x in value.values()], default=d + 1)
    return d


def _shrink_value(ctx, value, kind):
    """Greedy structural shrink keeping the same failure kind."""

    def fails(v):
        return applicable(ctx, v) and any(k == kind for k, _ in judge(ctx, v, None))

    changed = True
    budget = 120
    while changed and budget > 0:
        changed = False
        cands = []
        if isinstance(value, dict):
            for k in list(value):
                cands.append({kk: vv for kk, vv in value.items() if kk != k})
            for k, v in value.items():
                if isinstance(v, (dict, list)) and not isinstance(value, type(None)):
                    cands.append({**value, k: 1})
                    if isinstance(v, dict) and ctx not in ("nixlist",):
                        cands.append(v)
        elif isinstance(value, list):
            for i in range(len(value)):
                cands.append(value[:i] + value[i + 1 :])
            for i, v in enumerate(value):
                if isinstance(v, list):
                    cands.append(v)
        elif isinstance(value, str) and len(value) > 1:
            cands.append(value[: len(value) // 2])
            cands.append(value[len(value) // 2 :])
            cands.extend(value[:i] + value[i + 1 :] for i in range(min(len(value), 12)))
        # canonicalise scalars: anything that is not needed for the failure becomes 1
        def scalar_cands(v):
            if isinstance(v, dict):
                for k, x in v.items():
                    if isinstance(x, (dict, list)):
                        for c in scalar_cands(x):
                            yield {**v, k: c}
                    elif x != 1 or isinstance(x, bool):
                        yield {**v, k: 1}
            elif isinstance(v, list):
                for i, x in enumerate(v):
                    if isinstance(x, (dict, list)):
                        for c in scalar_cands(x):
                            yield v[:i] + [c] + v[i + 1 :]
                    elif x != 1 or isinstance(x, bool):
                        yield v[:i] + [1] + v[i + 1 :]
        cands.extend(scalar_cands(value))
        for c in cands:
            budget -= 1
            if budget <= 0:
                break
            try:
                if fails(c):
                    value = c
                    changed = True
                    break
            except Exception:  # noqa: BLE001
                continue
    return value


def replay(case):
    return judge(case["ctx"], _decode(case["value"]), _decode(case.get("first")))


def _encode(v):
    if isinstance(v, float):
        return {"__float__": repr(v)}
    if isinstance(v, list):
        return [_encode(x) for x in v]
    if isinstance(v, dict):
        return {"__dict__": [[k, _encode(x)] for k, x in v.items()]}
    return v


def _decode(v):
    if isinstance(v, dict) and "__float__" in v:
        return float(v["__float__"])
    if isinstance(v, dict) and "__dict__" in v:
        return {k: _decode(x) for k, x in v["__dict__"]}
    if isinstance(v, list):
        return [_decode(x) for x in v]
    return v


def plan(tier):
    return {"shards": 16, "examples": 500 if tier == "quick" else 15000, "wall_limit": 300 if tier == "quick" else 2400}


def run_shard(sh):
    examples = int(sh.params["examples"] * sh.params.get("scale", 1.0))
    blocked_feats = {q["feature"] for q in (sh.quarantine or []) if "feature" in q}

    @seed(sh.hseed)
    @settings(max_examples=examples, database=None, deadline=None, suppress_health_check=list(HealthCheck), phases=[Phase.generate])
    @given(values(), st.sampled_from(CONTEXTS), st.one_of(st.none(), dicts(1), values()))
    def prop(value, ctx, first):
        if sh.over_budget():
            sh.skipped_budget += 1
            return
        if not applicable(ctx, value):
            ctx = "binding"
        feats = features(value)
        if feats & blocked_feats:
            sh.excluded += 1
            return
        if "overwrite" not in ctx and ctx != "setitem_over_parsed" and not ctx.startswith("attrpath_leaf"):
            first = None
        case = {"ctx": ctx, "value": _encode(value), "first": _encode(first)}
        fails = judge(ctx, value, first)
        nontriv = bool(feats & {"str-dq", "str-bs", "str-nl", "str-cr", "str-tab", "str-dollar", "int-neg", "float-neg", "float-exp", "float-exp-nodot"}) or nesting(value) >= 2
        sh.record(case, nontriv, ["ctx:" + ctx] + ["f:" + f for f in feats])
        for kind, d in fails:
            if first is not None:
                sh.fail(f"{kind}|{ctx}|history", case, d)
                continue
            small = _shrink_value(ctx, value, kind)
            fs = sorted(features(small))
            sh.fail(f"{kind}|{ctx if kind.startswith(('render', 'construction')) else '*'}|{'+'.join(fs)}", {"ctx": ctx, "value": _encode(small)}, d)

    prop()
