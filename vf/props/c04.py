"""C04 — an edit touches only the binding it addresses."""

import copy
import random

from hypothesis import HealthCheck, Phase, given, seed, settings
from hypothesis import strategies as st

from vf import cst, nima
from vf.model import attrs as A
from vf.props import c05 as base
from vf.props import edit_common as E

ID = "C04"
LEVEL = "exploration"
RULE = (
    "Documents and histories as in C05 (single-line VALUEs). For every successful step whose input text is reproduced byte for byte by nima "
    "(canonical input) the byte-level clause is checked: input and output differ in one contiguous hunk that lies inside the region the "
    "operation may touch - the `= value` part of the addressed binding (replace); the space between the last item of the parent set and its "
    "closing brace, or the brace interior of an inline/empty set (insert); from the end of the previous sibling's line to the end of the removed "
    "binding's line plus following blank lines, up to the closing brace when it was the last item, or the brace interior when the set becomes "
    "empty (remove); the position directly in front of the set (layer creation) or the `let … in` extent (layer removal). For every step (any "
    "layout) the comments outside that region survive in order and the attribute-tree/wrapper oracle of C05 holds. Non-trivial = the target "
    "has >=1 sibling with attached trivia, or wrapper depth >=2, or history length >=2."
    ' Every eighth case is a directed document (dynamic attribute next to its literal twin; `src = fetchgit { inherit rev; … }` with look-alike siblings) judged by a line-level locality oracle: the changed lines of an accepted edit lie inside the addressed binding.'
)
ASSUMPTIONS = base.ASSUMPTIONS + ["'comments attached to the removed binding' is read permissively (DESIGN 7/C04) so that nima's own attachment is never contradicted"]


def _line_start(src: bytes, pos: int) -> int:
    return src.rfind(b"\n", 0, pos) + 1


def _line_end(src: bytes, pos: int) -> int:
    e = src.find(b"\n", pos)
    return len(src) if e == -1 else e + 1


def _items(container):
    return cst._binding_items(container)


def _names(tree, binding):
    ap = next((k for k in binding.children if k.type == "attrpath"), None)
    if ap is None:
        return None
    return tuple(cst.attr_name(tree, s)[0] for s in ap.children if s.type not in (".", "comment"))


def _value_node(binding):
    return next((k for k in binding.children if k.type not in ("attrpath", "=", ";", "comment")), None)


def locate(tree, container, S):
    """Follow path S like the model's find(): -> (parent container node, binding node) or (deepest existing container, None)."""
    for it in _items(container):
        if it.type != "binding":
            continue
        p = _names(tree, it)
        if p == S:
            return container, it
        if p is not None and len(p) < len(S) and S[: len(p)] == p:
            v = _value_node(it)
            if v is not None and v.type in ("attrset_expression", "rec_attrset_expression"):
                r = locate(tree, v, S[len(p) :])
                if r[1] is not None:
                    return r
    return container, None


def deepest_parent(tree, container, S):
    """Container into which a *new* binding for S is inserted (explicit nesting only)."""
    cur = container
    k = 0
    while k < len(S) - 1:
        if any(it.type == "binding" and (_names(tree, it) or ())[:1] == S[k : k + 1] and len(_names(tree, it) or ()) > 1 for it in _items(cur)):
            return cur  # attrpath family: appended here
        nxt = None
        for it in _items(cur):
            if it.type == "binding" and _names(tree, it) == (S[k],):
                v = _value_node(it)
                if v is not None and v.type in ("attrset_expression", "rec_attrset_expression"):
                    nxt = v
        if nxt is None:
            return cur
        cur = nxt
        k += 1
    return cur


def _interior(container):
    """(start, end) byte span strictly inside the braces of a set, or between let/in."""
    kids = container.children
    if container.type == "let_expression":
        lt = next(k for k in kids if k.type == "let")
        inn = next(k for k in kids if k.type == "in")
        return lt.end_byte, inn.start_byte
    op = next(k for k in kids if k.type == "{")
    cl = [k for k in kids if k.type == "}"][-1]
    return op.end_byte, cl.start_byte


def allowed_region(view: A.View, op, path, notes, mode="reparse"):
    """Byte region of the *input* the operation may touch (start, end), widened to whole lines."""
    src = view.tree.src
    depth, S = A.parse_path(path)
    tree = view.tree
    if depth:
        nl = len(view.let_nodes)
        if "create-layer" in notes:
            s = view.core_node.start_byte
            lo = _line_start(src, s)
            # comments and blank lines directly in front of the set belong to it: the new let may go in front of them
            while lo > 0:
                prev = _line_start(src, lo - 1)
                line = src[prev:lo].strip()
                if line == b"" or line.startswith(b"#") or line.startswith(b"/*") or line.endswith(b"*/"):
                    lo = prev
                else:
                    break
            return lo, s
        container = view.let_nodes[nl - depth]
        if "drop-layer" in notes:
            body = container.children[-1]
            return _line_start(src, container.start_byte), body.start_byte
    else:
        container = view.core_node
    if "replace" in notes:
        parent, b = locate(tree, container, S)
        if b is None:
            return None
        eq = next(k for k in b.children if k.type == "=")
        semi = [k for k in b.children if k.type == ";"][-1]
        return eq.end_byte, semi.start_byte
    if any(n in notes for n in ("append", "create-intermediate", "extend-family", "extend-family-nested")):
        parent = deepest_parent(tree, container, S)
        lo, hi = _interior(parent)
        items = _items(parent)
        multiline = b"\n" in src[parent.start_byte : parent.end_byte] if parent.type != "let_expression" else True
        if items and multiline:
            lo = _line_end(src, items[-1].end_byte) - 1  # the newline ending the last item's line (eol comment included)
            lo = max(lo, items[-1].end_byte)
        return lo, hi
    if any(n in notes for n in ("rm-plain", "rm-attrpath")):
        parent, b = locate(tree, container, S)
        if b is None:
            return None
        items = _items(parent)
        idx = next(i for i, it in enumerate(items) if it.id == b.id)
        lo_i, hi_i = _interior(parent)
        if len(items) == 1:
            return lo_i, hi_i  # the set becomes empty: interior may collapse
        start = _line_end(src, items[idx - 1].end_byte) - 1 if idx > 0 else lo_i
        if idx == len(items) - 1:
            return start, hi_i
        end = _line_end(src, b.end_byte)
        # following blank lines
        while end < len(src) and src[end : _line_end(src, end)].strip() == b"":
            end = _line_end(src, end)
        if mode == "same-object":
            # attachment was decided when the object was parsed: comments now sitting between the removed
            # binding and its next sibling may have been trailing comments of the removed binding
            end = max(end, _line_start(src, items[idx + 1].start_byte))
        return start, end
    return None


def hunk_fits(a: str, b: str, lo: int, hi: int):
    """Is there a minimal single-hunk alignment of a -> b whose input side lies inside [lo, hi]?
    Returns (fits, (start, end_in_a)) for the best alignment."""
    ab, bb = a.encode(), b.encode()
    n = min(len(ab), len(bb))
    pmax = 0
    while pmax < n and ab[pmax] == bb[pmax]:
        pmax += 1
    smax = 0
    while smax < n and ab[len(ab) - 1 - smax] == bb[len(bb) - 1 - smax]:
        smax += 1
    total = min(pmax + smax, n)
    best = None
    for p in range(max(0, total - smax), min(pmax, total) + 1):
        end = len(ab) - (total - p)
        if best is None:
            best = (p, end)
        if p >= lo and end <= hi:
            return True, (p, end)
    return False, best


def check_step(cur, op, path, value, out, notes, mode="reparse"):
    """Byte-level + comment clause for one successful step.  Returns list of (kind, detail)."""
    fails = []
    view = A.View(cur)
    region = allowed_region(view, op, path, notes, mode)
    if region is None:
        return [("no-region", {"notes": notes})]
    lo, hi = region
    src = view.tree.src
    canonical = False
    try:
        canonical = cst.env_ok(cur) and nima.rt(cur) == cur
    except Exception:  # noqa: BLE001
        canonical = False
    # comment clause (any layout): comments outside the region survive, in order
    cin = [c for c in cst.comments(view.tree) if not (lo <= c.start and c.end <= hi)]
    cout = cst.comments(out)
    want = [(c.kind, c.wording) for c in cin]
    have = [(c.kind, c.wording) for c in cout]
    it = iter(have)
    if not all(any(w == h for h in it) for w in want):
        fails.append(("comment-lost-outside-target", {"want": want[:6], "have": have[:6]}))
    if canonical and cur != out:
        wlo = _line_start(src, lo)
        whi = _line_end(src, hi) if hi < len(src) else len(src)
        ok, (p, qa) = hunk_fits(cur, out, wlo, whi)
        if not ok:
            kind = "hunk-starts-before-target" if p < wlo else "hunk-ends-after-target"
            fails.append((kind, {"hunk": [p, qa], "region": [lo, hi], "before": cur[max(0, p - 30) : qa + 30], "after": out[max(0, p - 30) : p + 60]}))
    return fails, canonical


def run_case(doc_text, ops, mode):
    step_fails = []
    stats = {"canonical_steps": 0, "steps": 0}

    def collect(cur, op, path, value, out, notes):
        res = check_step(cur, op, path, value, out, notes, mode)
        if isinstance(res, tuple):
            fl, canonical = res
        else:
            fl, canonical = res, False
        stats["steps"] += 1
        stats["canonical_steps"] += 1 if canonical else 0
        cls = "+".join(n for n in notes if not n.startswith("layer-"))
        for k, d in fl:
            step_fails.append((f"{k}|{op}|{cls}", dict(d, doc=cur[:500], op=[op, path, value], out=out[:500])))

    fails, info = base.run_case(doc_text, ops, mode, collect=collect)
    info.update(stats)
    # "all other bindings, their order and the surrounding expression keep the same tokens": the attribute-tree and
    # wrapper-token oracle shared with C05 is part of this property too (refusals are C05's business)
    own = [(s, d) for s, d in fails if not s.startswith("refused-wellformed")]
    return own + step_fails, info


# ---------------------------------------------------------------------------
# directed documents with a line-level locality oracle (no attribute model needed): every line of the input that is
# not part of the addressed binding has to come out unchanged, and an accepted edit changes one block of lines only.


def directed_case(r: random.Random):
    """-> (family, text, op, path, value, (lo, hi) lines of the input that may change; lo == hi + 1 means 'insert in front of line lo')"""
    c = lambda: r.choice(["", "", " # keep", " # of the unpacked tree", " # dynamic"])
    fam = r.choice(["dynamic-twin", "call-inherit"])
    if fam == "dynamic-twin":
        dyn = r.choice(["${x}", '"${x}"', "${x.y}", '"${x}-suffix"'])
        lit_path = '"' + dyn.strip('"') + '"'  # the literal name with the same characters
        lit_text = '"' + dyn.strip('"').replace("${", "\\${") + '"'
        body = [f"  a = 1;{c()}", f"  {dyn} = 2;{c()}", f"  b = 3;{c()}"]
        r.shuffle(body)
        has_lit = r.random() < 0.5
        lit_idx = None
        if has_lit:
            lit_idx = r.randrange(len(body) + 1)
            body.insert(lit_idx, f"  {lit_text} = 30;{c()}")
        head = r.choice([[], ["{ x }:"], ["x:"], ["let", "  x = \"k\";", "in"]])
        lines = head + ["{"] + body + ["}"]
        off = len(head) + 1
        if has_lit:
            op = r.choice(["set", "rm"])
            return fam, "\n".join(lines) + "\n", op, lit_path, ("77" if op == "set" else None), (off + lit_idx, off + lit_idx)
        close = len(lines) - 1
        return fam, "\n".join(lines) + "\n", "set", lit_path, "77", (close, close - 1)
    # call-inherit: `src = fetchgit { inherit rev; … };` redirects `src.rev` to the sibling `rev`; every other leaf below
    # `src` addresses something inside the call (refused today) and never a sibling that merely has the same name
    sib = r.sample(["hash", "url", "sha256", "name"], r.randint(1, 3))
    in_let = r.random() < 0.4
    inner = ["    inherit rev;"] + [f"    {n} = \"in-{n}\";" for n in r.sample(["url", "owner"], r.randint(0, 2))]
    r.shuffle(inner)
    sibs = [f"  rev = \"1\";{c()}"] + [f"  {n} = \"out-{n}\";{c()}" for n in sib]
    r.shuffle(sibs)
    block = ["  src = fetchgit {"] + inner + ["  };"]
    if in_let:
        lines = ["let"] + sibs + ["in", "{"] + block + ["  other = 1;", "}"]
        lo = len(sibs) + 3
    else:
        pos = r.randrange(len(sibs) + 1)
        lines = ["{ fetchgit }:", "{"] + sibs[:pos] + block + sibs[pos:] + ["}"]
        lo = 2 + pos
    hi = lo + len(block) - 1
    op = r.choice(["set", "set", "rm"])
    leaf = r.choice(sib + ["fresh"])
    return fam, "\n".join(lines) + "\n", op, "src." + leaf, ('"X"' if op == "set" else None), (lo, hi)


def judge_directed(text, op, path, value, allowed, via_cli):
    """Line-level locality; refusals are not judged here (C05/C08), but a refused edit must not print a document."""
    nima.reset_state()
    lo, hi = allowed
    if via_cli:
        code, so, se, exc = nima.cli([op, path] + ([value] if op == "set" else []), text)
        if exc is not None or code != 0:
            return [("refused-edit-printed-a-document", {"stdout": so[:200]})] if so.strip() else []
        out = so
    else:
        status, out, _src = E.run_op(text, op, path, value)
        if status != "ok":
            return []
    a, b = text.split("\n"), out.split("\n")
    pre = 0
    while pre < min(len(a), len(b)) and a[pre] == b[pre]:
        pre += 1
    suf = 0
    while suf < min(len(a), len(b)) - pre and a[len(a) - 1 - suf] == b[len(b) - 1 - suf]:
        suf += 1
    ch_lo, ch_hi = pre, len(a) - 1 - suf  # changed input lines (empty when ch_hi < ch_lo)
    if out == text:
        return [("accepted-edit-changed-nothing", {})] if op == "rm" or value not in text else []
    if ch_hi < ch_lo:
        ok = lo <= ch_lo <= hi + 1
    else:
        ok = lo <= ch_lo and ch_hi <= hi
    if not ok:
        return [("lines-outside-the-addressed-binding-changed", {"changed": [ch_lo, ch_hi], "allowed": [lo, hi], "out": out[:400]})]
    return []



def replay(case):
    if "directed" in case:
        d = case["directed"]
        return judge_directed(case["doc"], d["op"], d["path"], d["value"], tuple(d["allowed"]), d["via_cli"])
    fl, _ = run_case(case["doc"], [tuple(o) for o in case["ops"]], case.get("mode", "reparse"))
    return fl


def plan(tier):
    return {"shards": 16, "examples": 300 if tier == "quick" else 8000, "wall_limit": 300 if tier == "quick" else 2400}


def run_shard(sh):
    examples = int(sh.params["examples"] * sh.params.get("scale", 1.0))
    doc_kw, op_kw, flags = base.params_from_quarantine(sh.quarantine)

    @seed(sh.hseed)
    @settings(max_examples=examples, database=None, deadline=None, suppress_health_check=list(HealthCheck), phases=[Phase.generate])
    @given(st.integers(0, 2**48))
    def prop(n):
        if sh.over_budget():
            sh.skipped_budget += 1
            return
        sh.now(n)
        if n % 8 == 0:
            r = random.Random(n)
            fam, text, op, path, value, allowed = directed_case(r)
            via_cli = r.random() < 0.3
            case = {"doc": text, "directed": {"op": op, "path": path, "value": value, "allowed": list(allowed), "via_cli": via_cli, "family": fam}}
            fl = judge_directed(text, op, path, value, allowed, via_cli)
            sh.record(case, True, ["directed:" + fam, "op:" + op, "cli" if via_cli else "api"])
            for k, d in fl:
                sh.fail(f"{k}|directed:{fam}|{op}", case, d)
            return
        g = base.gen_case(n, kw=doc_kw, scoped_bias=0.2, max_ops=6, single_line=True, op_kw=op_kw, flags=flags)
        if g is None:
            return
        text, ops, mode = g
        fails, info = run_case(text, ops, mode)
        view = A.View(text)
        has_trivia = "#" in text
        nontriv = info.get("ok_steps", 0) >= 1 and (has_trivia or len(view.kinds) >= 2 or info.get("ok_steps", 0) >= 2)
        sh.record({"doc": text, "ops": [list(o) for o in ops], "mode": mode}, nontriv, ["mode:" + mode, "shape:" + base.shape_sig(view), f"canonical-steps:{min(info.get('canonical_steps', 0), 4)}"] + ["op:" + c for c in info.get("classes", [])])
        for sig, d in fails:
            small = base.minimise_case(text, ops, mode, sig) if False else ops
            # minimise with this module's oracle
            cur_ops = list(ops)
            i = 0
            calls = 0
            while i < len(cur_ops) and len(cur_ops) > 1 and calls < 30:
                cand = cur_ops[:i] + cur_ops[i + 1 :]
                calls += 1
                fl2, _ = run_case(text, cand, mode)
                if any(s2 == sig for s2, _ in fl2):
                    cur_ops = cand
                else:
                    i += 1
            sh.fail(sig, {"doc": text, "ops": [list(o) for o in cur_ops], "mode": mode}, d)

    prop()
