"""C15 — rebuilding is pure and deterministic, independent of threads and history."""

import json
import os
import random
import subprocess
import sys
import tempfile
import threading

from hypothesis import HealthCheck, Phase, given, seed, settings
from hypothesis import strategies as st

from vf import cst, nima
from vf.gen import docs as D
from vf.gen import grammar as G
from vf.gen import trivia as T
from vf.props import c15_worker as W
from vf.props.c08 import snapshot

ID = "C15"
LEVEL = "exploration"
RULE = (
    "(1) purity: for generated programs (C01 grammar + trivia) and documents (C05 generator, also after an edit) a structural snapshot of the whole "
    "tree (every dataclass slot, list, dict, scope layer) is taken before and after rebuild(); snapshots must be equal and three consecutive rebuilds "
    "must return the same text. (2) history independence: a seed-derived work list (round trips, document round trips, edit histories) is evaluated in "
    "this process in one order and in fresh child interpreters in reversed/shuffled order; per-item digests must agree. (3) threads: the same work list "
    "split over 8 threads (switch interval 1e-6 s, barrier start, distinct documents per thread) must give the serial digests, with no exception. "
    "(4) configuration: child interpreters with PYTHONHASHSEED in {0, 1, 4242, random} x cwd in {/, a temp dir, the repository} must give identical "
    "digests. Non-trivial = a document with >=1 comment and >=1 scoped or chained-binary construct."
)
ASSUMPTIONS = ["thread schedules are sampled (CPython's scheduler is not controlled); a coupling through shared state shows up as a digest mismatch, never as a false alarm", "child interpreters run the same harness code with NIMA_REPO pointing at the tree under test"]


def purity(text):
    """Returns list of (kind, detail)."""
    fails = []
    nima.reset_state()
    try:
        src = nima.parse(text)
    except Exception:  # noqa: BLE001
        return [], "refused"
    snap0 = snapshot([src.expressions, src.trailing])
    try:
        r1 = src.rebuild()
    except Exception:  # noqa: BLE001
        return [], "refused"
    snap1 = snapshot([src.expressions, src.trailing])
    if snap0 != snap1:
        fails.append(("rebuild-mutates-tree", {"where": _first_diff(snap0, snap1), "text": text[:300]}))
    r2 = src.rebuild()
    r3 = src.rebuild()
    if not (r1 == r2 == r3):
        fails.append(("repeated-rebuild-differs", {"r1": r1[:200], "r2": r2[:200], "r3": r3[:200], "text": text[:300]}))
    return fails, "ok"


def _first_diff(a, b, path="$"):
    if type(a) is not type(b):
        return f"{path}: type {type(a).__name__} -> {type(b).__name__}"
    if isinstance(a, dict):
        for k in a:
            if k not in b:
                return f"{path}.{k}: removed"
            if a[k] != b[k]:
                return _first_diff(a[k], b[k], f"{path}.{k}")
        for k in b:
            if k not in a:
                return f"{path}.{k}: added"
    if isinstance(a, list):
        if len(a) != len(b):
            return f"{path}: length {len(a)} -> {len(b)}"
        for i, (x, y) in enumerate(zip(a, b)):
            if x != y:
                return _first_diff(x, y, f"{path}[{i}]")
    return f"{path}: {str(a)[:40]!r} -> {str(b)[:40]!r}"


def child(seed_, count, order, hashseed, cwd):
    env = dict(os.environ, PYTHONHASHSEED=str(hashseed), NIMA_REPO=nima.REPO, PYTHONPATH=os.pathsep.join([nima.REPO, os.path.dirname(os.path.dirname(os.path.dirname(os.path.abspath(__file__))))]), PYTHONDONTWRITEBYTECODE="1")
    p = subprocess.run([sys.executable, "-B", "-m", "vf.props.c15_worker", str(seed_), str(count), order], stdout=subprocess.PIPE, stderr=subprocess.PIPE, env=env, cwd=cwd, timeout=600)
    if p.returncode != 0:
        raise RuntimeError(f"child failed: {p.stderr.decode()[-500:]}")
    return {int(k): v for k, v in json.loads(p.stdout).items()}


def threaded(seed_, count, nthreads=8):
    items = W.work_items(seed_, count)
    results = {}
    errors = []
    barrier = threading.Barrier(nthreads)

    def worker(t):
        try:
            barrier.wait()
            for i in range(t, len(items), nthreads):
                results[i] = W.digest(W.evaluate(*items[i]))
        except Exception as e:  # noqa: BLE001
            errors.append(repr(e))

    old = sys.getswitchinterval()
    sys.setswitchinterval(1e-6)
    try:
        ths = [threading.Thread(target=worker, args=(t,)) for t in range(nthreads)]
        for t in ths:
            t.start()
        for t in ths:
            t.join()
    finally:
        sys.setswitchinterval(old)
    return results, errors


def replay(case):
    if case.get("kind") == "purity":
        return purity(case["text"])[0]
    if case.get("kind") == "worklist":
        base = W.run(case["seed"], case["count"], "forward")
        if case["mode"] == "threads":
            got, errors = threaded(case["seed"], case["count"])
            bad = [i for i in base if got.get(i) != base[i]]
            return [("thread-result-differs", {"items": bad[:5], "errors": errors[:3]})] if bad or errors else []
        got = child(case["seed"], case["count"], case.get("order", "reversed"), case.get("hashseed", 0), case.get("cwd", "/"))
        bad = [i for i in base if got.get(i) != base[i]]
        return [("child-result-differs", {"items": bad[:5]})] if bad else []
    return []


def plan(tier):
    return {"shards": 16, "examples": 250 if tier == "quick" else 6000, "worklist": 60 if tier == "quick" else 600, "wall_limit": 300 if tier == "quick" else 2400}


def run_shard(sh):
    examples = int(sh.params["examples"] * sh.params.get("scale", 1.0))
    count = sh.params["worklist"]
    wseed = sh.hseed
    # ---- (2) (3) (4): one configuration per shard
    base = W.run(wseed, count, "forward")
    items = W.work_items(wseed, count)
    tmp = tempfile.mkdtemp(prefix="c15-")
    try:
        configs = [("reversed", 0, "/"), ("shuffle1", 1, tmp), ("shuffle2", 4242, nima.REPO), ("forward", "random", tmp), ("poisoned", 0, "/")]
        order, hs, cwd = configs[sh.index % len(configs)]
        got = child(wseed, count, order, hs, cwd)
        bad = [i for i in base if got.get(i) != base[i]]
        case = {"kind": "worklist", "seed": wseed, "count": count, "mode": "child", "order": order, "hashseed": hs if hs != "random" else "random", "cwd": "tmp" if cwd == tmp else cwd}
        sh.record(case, True, [f"child:order={order}", f"child:hashseed={hs}", f"child:cwd={'tmp' if cwd == tmp else cwd}"])
        if bad:
            sh.fail(f"child-result-differs|order={order}|hashseed={hs}", dict(case, cwd="/"), {"items": [list(items[i]) for i in bad[:5]]})
        tgot, errors = threaded(wseed, count)
        tbad = [i for i in base if tgot.get(i) != base[i]]
        tcase = {"kind": "worklist", "seed": wseed, "count": count, "mode": "threads"}
        sh.record(tcase, True, ["threads:8"])
        if tbad or errors:
            sh.fail("thread-result-differs", tcase, {"items": [list(items[i]) for i in tbad[:5]], "errors": errors[:3]})
    finally:
        import shutil

        shutil.rmtree(tmp, ignore_errors=True)

    injector = T.Injector(T.ALL_CLASSES)

    @seed(sh.hseed)
    @settings(max_examples=examples, database=None, deadline=None, suppress_health_check=list(HealthCheck), phases=[Phase.generate])
    @given(st.integers(0, 2**48), st.sampled_from(["program", "program", "doc", "doc-edited"]))
    def prop(n, kind):
        if sh.over_budget():
            sh.skipped_budget += 1
            return
        sh.now(n)
        r = random.Random(n)
        if kind == "program":
            _a, b, _br = G.program(n)
            bt = cst.parse(b)
            if bt.root.has_error or not cst.env_ok(b):
                return
            text, *_ = T.inject(r, b, injector, tree=bt)
            if not cst.env_ok(text):
                text = b
        else:
            _d, text = D.make(n)
        fails, status = purity(text)
        if kind == "doc-edited" and status == "ok":
            # purity after an edit on the same object
            from vf.props import c05

            g = c05.gen_case(n, scoped_bias=0.4)
            if g is not None:
                t2, ops, _m = g
                src = nima.parse(t2)
                last = None
                for op, path, value, _c in ops[:4]:
                    try:
                        last = nima.set_value(src, path, value) if op == "set" else nima.remove_value(src, path)
                    except Exception:  # noqa: BLE001
                        pass
                s0 = snapshot([src.expressions, src.trailing])
                try:
                    a = src.rebuild()
                    s1 = snapshot([src.expressions, src.trailing])
                    b2 = src.rebuild()
                    if last is not None and a.rstrip("\n") != last.rstrip("\n"):
                        # the text an edit returns *is* a rebuild of the object; rebuilding again must give it back
                        # (the final newline is the CLI helper's business, see C16 / finding F11)
                        fails.append(("rebuild-after-edit-differs-from-edit-output", {"text": t2[:300], "edit_output": last[:300], "rebuild": a[:300]}))
                    if s0 != s1:
                        fails.append(("rebuild-mutates-tree-after-edit", {"where": _first_diff(s0, s1), "text": t2[:300]}))
                    if a != b2:
                        fails.append(("repeated-rebuild-differs-after-edit", {"text": t2[:300]}))
                except Exception:  # noqa: BLE001
                    pass
        case = {"kind": "purity", "text": text}
        nontriv = status == "ok" and ("#" in text or "/*" in text) and any(k in text for k in ("let", "++", "//", "&&", "+ "))
        sh.record(case, nontriv, ["kind:" + kind, "status:" + status], refused=(status == "refused"))
        for k, d in fails:
            sh.fail(k, case, d)

    prop()
