"""Shared engine of the edit properties (C04, C05, C08, C09, C19): documents from vf.gen.docs, operation
generator with path classes, execution against nima, comparison with vf.model.attrs."""

from __future__ import annotations

import copy
import random

from vf import cst, guard, nima
from vf.gen import docs as D
from vf.model import attrs as A
from vf.model import names as N
from vf.props.rt_common import innermost_frame

VALUES = ['1', '2', '42', 'true', 'null', '"1.2.3"', '"s"', './p', '[ 1 2 ]', '[ ]', 'pkgs.hello', 'f x', '1 + 2', '{ }', '{ x = 1; }', '"a${b}c"', 'x: x', '(-1)', '0.5', 'if c then 1 else 2', "''\n  multi\n''", '{ x = 1; y = { z = 2; }; }', 'with lib; x', 'a.b or 3']
SINGLE_LINE_VALUES = [v for v in VALUES if "\n" not in v]


def enc(path_names, depth=0, force_quote=()):
    return "@" * depth + N.encode_path(path_names, force_quote)


def all_paths(entries, prefix=(), descend_family_sets=True):
    """[(full path, entry)] for every addressable definition (leaf, explicit set, attrpath leaf)."""
    out = []
    for e in entries:
        if e["inh"] is not None:
            continue
        p = prefix + e["path"]
        out.append((p, e))
        if A.is_set(e) and (descend_family_sets or len(e["path"]) == 1):
            out.extend(all_paths(e["val"]["set"], p, descend_family_sets))
    return out


def gen_op(r: random.Random, model: A.Model, *, scoped_bias=0.15, failing_bias=0.2, rm_bias=0.4, single_line=False, descend_family_sets=True, scoped_family_extend=True, at_inherited=True):
    """Draw one operation: returns (op, path_text, value_text|None, path_class)."""
    depth = 0
    nlayers = len(model.layers)
    if r.random() < scoped_bias:
        depth = r.choice([1, 1, 1, 2, 2, 3]) if nlayers else r.choice([1, 1, 2])
    target = model.core if depth == 0 else (model.layers[-depth] if depth <= nlayers else [])
    defs = all_paths(target, descend_family_sets=descend_family_sets)
    op = "rm" if r.random() < rm_bias else "set"
    values = SINGLE_LINE_VALUES if single_line else VALUES
    value = r.choice(values) if op == "set" else None
    x = r.random()
    fresh_names = ["new", "extra", "zz", "foo-bar", "x.y", "n1", "added", "q", "user@host"]
    cls = None
    S = None
    pre_force = None
    if x < failing_bias:
        # classes that the model expects to be rejected
        kind = r.choice(["missing", "through-leaf", "family-root", "missing-nested", "deep-scope", "missing-deep"])
        if kind == "missing-deep":
            # rm of a dotted path whose first (or second) segment does not exist: nothing may be created on the way
            sets = [p for p, e in defs if A.is_set(e)]
            base = r.choice(sets) if sets and r.random() < 0.4 else ()
            S, cls = base + (r.choice(["nope", "cfg9"]), r.choice(["port", "x"])) + ((r.choice(["name"]),) if r.random() < 0.3 else ()), "missing-deep"
            op = "rm"
            value = None
        elif kind == "missing" or not defs:
            S, cls = (r.choice(["nope", "missing1", "zz9"]),), "missing"
            op = "rm"
            value = None
        elif kind == "through-leaf":
            leaves = [p for p, e in defs if not A.is_set(e)]
            if leaves:
                S, cls = r.choice(leaves) + (r.choice(["sub", "x"]),), "through-leaf"
        elif kind == "family-root":
            roots = sorted({e["path"][:1] for e in target if e["inh"] is None and len(e["path"]) > 1})
            if roots:
                S, cls = r.choice(roots), "family-root"
        elif kind == "missing-nested":
            sets = [p for p, e in defs if A.is_set(e)]
            if sets:
                S, cls = r.choice(sets) + ("absent",), "missing-nested"
                op = "rm"
                value = None
        elif kind == "deep-scope":
            depth = nlayers + r.choice([1, 2]) + (1 if nlayers == 0 else 0)
            bound = sorted({e["path"][:1] for layer in model.layers for e in layer if e["inh"] is None and len(e["path"]) == 1})
            S, cls = (r.choice(bound) if bound and r.random() < 0.7 else ("v",)), "deep-scope"
    if S is None:
        y = r.random()
        leaves = [p for p, e in defs if not A.is_set(e)]
        sets = [p for p, e in defs if A.is_set(e)]
        fam_roots = sorted({e["path"][:1] for e in target if e["inh"] is None and len(e["path"]) > 1})
        # families inside explicitly written sets (`boot = { loader.grub.enable = …; loader.timeout = …; };`)
        for sp, se in defs:
            if A.is_set(se) and len(se["path"]) == 1:
                fam_roots.extend(sorted({sp + e2["path"][:1] for e2 in se["val"]["set"] if e2["inh"] is None and len(e2["path"]) > 1}))
        inherited = sorted({e["path"][0] for e in target if e["inh"] is not None})
        if y < 0.02 and inherited and at_inherited and op == "set":
            # the inherited name itself (finding F28 when this class is switched off)
            S, cls = (r.choice(inherited),), "at-inherited"
        elif y < 0.05 and inherited:
            # below a name that is only inherited: the statements leave open whether this is refused, but the result
            # must never define the name a second time
            S, cls = (r.choice(inherited), r.choice(["description", "version"])) + (("x",) if r.random() < 0.3 else ()), "through-inherited"
            if r.random() < 0.4 and not N.needs_quotes(S[0]):
                pre_force = (0,)  # `"lib".description`: the quoted spelling is the same inherited name
        elif y < 0.09 and any(len(p) >= 2 for p, _e in defs):
            # one quoted segment whose text looks like an existing nested path (`"x.y".z` next to `x = { y = …; }` or
            # `x.y.q = …;`): it names an attribute `x.y` that does not exist, never the nested path
            pre = r.choice([p[:k] for p, _e in defs for k in range(2, len(p) + 1)])
            tail = sorted({p[len(pre)] for p, _e in defs if len(p) > len(pre) and p[: len(pre)] == pre})
            S, cls = (".".join(pre), r.choice(tail + ["fresh"]) if tail else "fresh"), "dotted-lookalike"
        elif y < 0.4 and leaves:
            S, cls = r.choice(leaves), "existing-leaf"
        elif y < 0.5 and sets:
            S, cls = r.choice(sets), "existing-set"
        elif y < 0.62 and fam_roots and op == "set" and (depth == 0 or scoped_family_extend):
            S, cls = r.choice(fam_roots) + (r.choice(["fresh", "y2", "z3"]),) + ((r.choice(["d"]),) if r.random() < 0.25 else ()), "family-new-member"
        elif y < 0.78 and op == "set":
            S, cls = (r.choice(fresh_names),), "fresh-single"
        elif y < 0.9 and op == "set":
            base = r.choice(sets) if sets and r.random() < 0.5 else ()
            S, cls = base + tuple(r.sample(fresh_names, r.randint(1, 2) if base else 2)), "fresh-nested"
        elif leaves:
            S, cls = r.choice(leaves), "existing-leaf"
        else:
            S, cls = (r.choice(fresh_names),), "fresh-single"
            if op == "rm":
                cls = "missing"
    if depth == 1 and nlayers == 0 and op == "set" and cls in ("fresh-single", "fresh-nested") and r.random() < 0.3:
        # `@a` / `@m.n` where the body only has dotted bindings below that name (`a.b = …;`, `m.n.o = …;`): no binding of
        # the body has that path, so one innermost layer is created like for any other fresh name
        pre = sorted({e["path"][:k] for e in model.core if e["inh"] is None and len(e["path"]) > 1 for k in range(1, len(e["path"]))})
        if pre:
            S, cls = r.choice(pre), "fresh-attrpath-prefix"
    force = ()
    if pre_force is not None:
        force = pre_force
    elif r.random() < 0.08 and not any(N.needs_quotes(n) for n in S):
        # the other spelling of the same name: `"a"` for `a` (must address the same binding)
        force = (r.randrange(len(S)),)
    return op, enc(S, depth, force), value, cls + (f"@{depth}" if depth else "")


def run_op(src_or_text, op, path, value):
    """Apply one op.  Returns ('ok', out_text) | ('raise', exc)"""
    src = None
    try:
        with guard.time_limit(15):
            src = nima.parse(src_or_text) if isinstance(src_or_text, str) else src_or_text
            if op == "set":
                return "ok", nima.set_value(src, path, value), src
            return "ok", nima.remove_value(src, path), src
    except guard.EvalTimeout as e:
        return "timeout", e, src
    except Exception as e:  # noqa: BLE001
        return "raise", e, src


def compare(model: A.Model, before_view: A.View, out_text: str):
    """Oracle after a successful step.  Returns list of (kind, detail)."""
    fails = []
    v = A.View(out_text)
    if not v.valid:
        return [("invalid-output", {"out": out_text[:300]})], v
    if v.core is None:
        return [("target-lost", {"out": out_text[:300]})], v
    d = A.diff(A.canon(model.core), A.canon(v.core["set"]))
    if d is not None:
        fails.append(("core-differs", {"diff": d, "out": out_text[:400]}))
    if len(v.layers) != len(model.layers):
        fails.append(("layer-count", {"expected": len(model.layers), "got": len(v.layers), "out": out_text[:400]}))
    else:
        for i, (ml, vl) in enumerate(zip(model.layers, v.layers)):
            d = A.diff(A.canon(ml), A.canon(vl))
            if d is not None:
                fails.append(("layer-differs", {"layer": i, "of": len(model.layers), "diff": d, "out": out_text[:400]}))
                break
    if before_view is not None and before_view.outside_tokens() != v.outside_tokens():
        fails.append(("wrapper-tokens-changed", {"before": before_view.outside_tokens()[:12], "after": v.outside_tokens()[:12]}))
    if before_view is not None and before_view.edge_comments()[1] != v.edge_comments()[1]:
        # what stands behind the last token of the file is outside every binding and layer (a comment in front of the
        # first token may be the leading comment of the set and move with it when a layer is created or dropped)
        fails.append(("file-end-comments-changed", {"before": list(before_view.edge_comments()[1]), "after": list(v.edge_comments()[1]), "out": out_text[-300:]}))
    if before_view is not None and len(before_view.let_nodes) == len(v.let_nodes) and not fails:
        # no layer created or dropped: what follows each `in` (comments, blank line) belongs to "the other layers keep their text"
        b, a = before_view.after_in_trivia(), v.after_in_trivia()
        if b != a:
            fails.append(("after-in-trivia-changed", {"before": [list(x) if x else x for x in b], "after": [list(x) if x else x for x in a], "out": out_text[:400]}))
        b, a = before_view.let_head_comments(), v.let_head_comments()
        if b != a:
            fails.append(("let-head-comment-changed", {"before": b, "after": a, "out": out_text[:400]}))
    return fails, v


def exc_sig(e) -> str:
    return f"{type(e).__name__}@{innermost_frame(e)}"


def shape_of(view: A.View) -> str:
    ks = [k for k in view.kinds]
    return ">".join(ks) if ks else "bare"
