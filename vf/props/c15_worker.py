"""Work-list evaluation for C15 (also run as a child process: python -m vf.props.c15_worker SEED COUNT ORDER)."""

import hashlib
import json
import random
import sys


def work_items(seed, count):
    r = random.Random(seed)
    return [(r.choice(["rt", "rt", "rt-doc", "edit"]), r.randrange(2**40)) for _ in range(count)]


def evaluate(kind, n):
    """Deterministic result string for one work item (exceptions are part of the result)."""
    from vf import cst, nima
    from vf.gen import docs as D
    from vf.gen import grammar as G
    from vf.gen import trivia as T

    import threading

    if threading.current_thread() is threading.main_thread():
        # (never from a worker thread: clearing the library's context registry under the feet of an edit that runs in
        # another thread is interference by the harness, not behaviour of the library)
        nima.reset_state()
    try:
        if kind == "rt":
            _a, base, _b = G.program(n)
            bt = cst.parse(base)
            if bt.root.has_error or not cst.env_ok(base):
                return "skip"
            inj = T.Injector(T.ALL_CLASSES)
            text, *_ = T.inject(random.Random(n), base, inj, tree=bt)
            if not cst.env_ok(text):
                return "skip"
            return nima.rt(text)
        if kind == "rt-doc":
            _d, text = D.make(n)
            return nima.rt(text)
        if kind == "edit":
            from vf.props import c05

            g = c05.gen_case(n)
            if g is None:
                return "skip"
            text, ops, mode = g
            src = nima.parse(text)
            out = text
            for op, path, value, _cls in ops:
                try:
                    out = nima.set_value(src, path, value) if op == "set" else nima.remove_value(src, path)
                except Exception as e:  # noqa: BLE001
                    out = out + f"\n!{type(e).__name__}"
            return out
    except Exception as e:  # noqa: BLE001
        return f"!{type(e).__name__}:{str(e)[:60]}"
    return "?"


def digest(s):
    return hashlib.sha1(s.encode("utf-8", "replace")).hexdigest()[:16]


def run(seed, count, order):
    items = work_items(seed, count)
    idx = list(range(len(items)))
    if order == "reversed":
        idx.reverse()
    elif order.startswith("shuffle"):
        random.Random(int(order[7:] or 0)).shuffle(idx)
    if order.startswith("poisoned"):
        # history: a render that fails (a non-finite float has no Nix spelling) happened earlier in this thread
        try:
            from nix_manipulator.expressions.set import AttributeSet

            AttributeSet.from_dict({"ok": 1, "ratio": float("nan")}).rebuild()
        except Exception:  # noqa: BLE001
            pass
    out = {}
    for i in idx:
        out[i] = digest(evaluate(*items[i]))
    return out


if __name__ == "__main__":
    seed, count, order = int(sys.argv[1]), int(sys.argv[2]), sys.argv[3]
    json.dump(run(seed, count, order), sys.stdout)
