"""C01 — a parse/rebuild round trip never changes what the program means."""

from vf import cst, oracles
from vf.gen import trivia as T
from vf.props import rt_common as RT

ID = "C01"
LEVEL = "exploration"
RULE = (
    "Programs are generated from a recursive generator over the full tree-sitter-nix expression grammar "
    "(seed drawn by Hypothesis), printed flat or broken over lines, then 1..all inter-token gaps are perturbed "
    "with whitespace / comment classes (injection is verified to keep the token sequence). Oracle: rebuilt text "
    "is valid and its normalised code-token sequence equals the input's. Non-trivial = valid input accepted by "
    "nima with >=1 perturbed gap or nesting depth >=3; distinct by SHA-1 of the case."
)
ASSUMPTIONS = [
    "tree-sitter-nix 0.1.0 defines 'parses without error' (trailing comma in formals tolerated)",
    "documented ValueError refusals of valid input are counted, not judged (C20 judges exception types)",
]


def check(text, tree):
    status, out = RT.rebuild(text)
    if status == "refused":
        return "refused", [(out, {})]
    if status == "crash":
        return "ok", [("crash:" + out, {"text_len": len(text)})]
    fails, _ = oracles.c01(tree, out)
    return "ok", [(k, dict(d, out=out[:300])) for k, d in fails]


CFG = RT.Config(ID, T.ALL_CLASSES, check)


def plan(tier):
    return {"shards": 16, "examples": 2800 if tier == "quick" else 20000, "wall_limit": 240 if tier == "quick" else 2400}


def run_shard(sh):
    RT.run_shard(sh, CFG)


def replay(case):
    return RT.replay(case, CFG)
