"""C20 — parse and rebuild terminate quickly and fail only in documented ways."""

import random
import sys

from hypothesis import HealthCheck, Phase, given, seed, settings
from hypothesis import strategies as st

from vf import cst, guard, nima
from vf.gen import damage as D
from vf.gen import grammar as G
from vf.gen import trivia as T
from vf.props.rt_common import innermost_frame, make_blocked

ID = "C20"
LEVEL = "exploration"
RULE = (
    "(a) arbitrary UTF-8 text: Hypothesis text over a Nix-token alphabet, arbitrary unicode, and damaged programs; (b) valid programs of "
    "the C01 grammar (uri included) with trivia; (c) depth-parameterised families (curried lambdas, nested lists/sets/parens/with/assert/if/let, "
    "calls, inherit sources, interpolations, formal defaults, operator chains, long files) measured at depth d and 2d. Oracles: "
    "parse+rebuild returns or raises ValueError/NixSyntaxError, nothing else; deterministic work counter (Python call events inside "
    "nix_manipulator, sys.setprofile) obeys work(2d) <= 20*work(d). Non-trivial = erroneous text, or text with trivia, or a family "
    "measurement; distinct by SHA-1."
    ' Mode `layout` re-lays-out every whitespace gap of a valid program (line breaks, CRLF, comments, random tails). 103 indentation-length families (`ind:`) indent an own-line comment by 8d blanks in every gap of 16 small programs.'
)
ASSUMPTIONS = [
    "inputs stay below 250 lines and 250 bytes per line: py-tree-sitter 0.26.0 hands out a borrowed reference from Point.row/column for values > 256 (interpreter heap corruption); outside the library's control",
    "the call-event counter is the proxy for running time; CPU time is recorded only",
    "nesting bound 12 for the families (2d = 12), far below CPython's recursion limit",
]

ALLOWED = (ValueError, nima.NixSyntaxError)
_ALPHABET = ["{", "}", "(", ")", "[", "]", ";", "=", ",", ":", "@", "?", '"', "''", "${", " in ", "let ", " then ", " else ", "with ", "assert ", "inherit ", "rec ", "if ", ".", "...", "#", "/*", "*/", "\\", "'", "$", " ", "\n", "\t", "a", "b", "x", "1", "0.5", "./p", "<n>", "é", "==", "!", "-", "+", "++", "//", "->", " or ", "&&", "||", "true", "null", "http://x.y", "~/h"]


_WS = [" ", " ", "\n", "\n", "\n  ", "\n\n", "\n    ", "  ", "\t", "\n\n  ", "\r\n", " # c\n", " /* c */ ", "\n# c\n"]
_TAILS = ["\n", "\r\n", "\r", "\f", "\v", " ", "\t", "\n\n", "# end\n"]


def relayout(r: random.Random, base: str, tree):
    """Every whitespace gap of a valid program replaced by random layout (line breaks before/after any token, blank lines,
    CRLF, comments), plus a random tail after the last token.  Returns None when the result is not the same token
    sequence any more (gaps inside string content are not told apart up front)."""
    toks = cst.tokens(tree)
    src = tree.src
    out = []
    pos = 0
    p_change = r.choice([0.15, 0.4, 0.8])
    for a, b in zip(toks, toks[1:]):
        gap = src[a.end : b.start]
        out.append(src[pos : a.end])
        pos = b.start
        if gap and not gap.strip() and r.random() < p_change:
            out.append(r.choice(_WS).encode())
        else:
            out.append(gap)
    out.append(src[pos : toks[-1].end] if toks else src)
    tail = "".join(r.choice(_TAILS) for _ in range(r.randint(0, 4)))
    text = b"".join(out).decode() + tail
    t2 = cst.parse(text)
    if t2.root.has_error or [t.key() for t in cst.tokens(t2)] != [t.key() for t in toks]:
        return None
    return text


def run_once(text):
    """-> (status, sig)  status in ok|refused|crash|timeout"""
    nima.reset_state()
    try:
        with guard.time_limit(20):
            nima.parse(text).rebuild()
        return "ok", None
    except guard.EvalTimeout:
        return "timeout", "timeout"
    except ALLOWED as e:
        return "refused", f"{type(e).__name__}"
    except BaseException as e:  # noqa: BLE001
        if isinstance(e, (KeyboardInterrupt, SystemExit)):
            raise
        return "crash", f"{type(e).__name__}@{innermost_frame(e)}"


# ---------------------------------------------------------------------------
# depth families


def _fam():
    nl = "\n"
    return {
        "lambda-ident": lambda d: "a: " * d + "x",
        "lambda-ident-nl": lambda d: "a:\n" * d + "x",
        "lambda-formals": lambda d: "{ a }: " * d + "x",
        "lambda-in-paren": lambda d: "(a: " * d + "x" + ")" * d,
        "list": lambda d: "[ " * d + "1" + " ]" * d,
        "list-nl": lambda d: "".join("  " * i + "[\n" for i in range(d)) + "  " * d + "1\n" + "".join("  " * (d - 1 - i) + "]\n" for i in range(d)),
        "set": lambda d: "{ a = " * d + "1" + "; }" * d,
        "set-nl": lambda d: "".join("  " * i + ("a = " if i else "") + "{\n" for i in range(d)) + "  " * d + "a = 1;\n" + "".join("  " * (d - 1 - i) + ("};\n" if d - 1 - i else "}\n") for i in range(d)),
        "paren": lambda d: "(" * d + "1" + ")" * d,
        "with": lambda d: "with a; " * d + "x",
        "with-nl": lambda d: "with a;\n" * d + "x",
        "assert": lambda d: "assert a; " * d + "x",
        "assert-nl": lambda d: "assert a;\n" * d + "x",
        "if-else": lambda d: "if c then 1 else " * d + "2",
        "if-then": lambda d: "if c then " * d + "1" + " else 2" * d,
        "let-body": lambda d: "let a = 1; in " * d + "a",
        "let-value": lambda d: "let a = " * d + "1" + "; in a" * d,
        "call-arg": lambda d: "f (" * d + "x" + ")" * d,
        "call-curried": lambda d: "f" + " a" * d,
        "call-set-arg": lambda d: "f { a = " * d + "1" + "; }" * d,
        "inherit-from": lambda d: "{ inherit (" * d + "x" + ") a; }" * d,
        "interp": lambda d: '"${ ' * d + "x" + ' }"' * d,
        "formal-default": lambda d: "{ a ? " * d + "1" + " }: a" * d,
        "binop-add": lambda d: "a" + " + a" * d,
        "binop-add-nl": lambda d: "a" + "\n+ a" * d,
        "binop-concat": lambda d: "a" + " ++ a" * d,
        "binop-concat-nl": lambda d: "a" + "\n++ a" * d,
        "binop-update-nl": lambda d: "a" + "\n// a" * d,
        "binop-impl": lambda d: "a" + " -> a" * d,
        "binop-impl-nl": lambda d: "a" + " ->\n a" * d,
        "binop-and-paren": lambda d: "(a && " * d + "a" + ")" * d,
        "select-chain": lambda d: "a" + ".b" * d,
        "select-or": lambda d: "a.b or " * d + "c",
        "has-attr-not": lambda d: "! " * d + "a",
        "neg": lambda d: "- " * d + "1",
        "file-bindings": lambda d: "{\n" + "".join(f"  a{i} = {i};\n" for i in range(d * 4)) + "}\n",
        "file-list": lambda d: "[\n" + "".join(f"  {i}\n" for i in range(d * 4)) + "]\n",
        "file-comments": lambda d: "{\n" + "".join(f"  # c{i}\n  a{i} = 1;\n" for i in range(d * 3)) + "}\n",
        "list-of-sets": lambda d: "[ { a = " * d + "1" + "; } ]" * d,
        "set-in-lambda": lambda d: "{ f = a: " * d + "1" + "; }" * d,
        "attrpath-family": lambda d: "{\n" + "".join(f"  a.b{i} = 1;\n" for i in range(d * 3)) + "}\n",
        "let-layers-set": lambda d: "let a = 1; in\n" * d + "{ b = a; }",
    }


FAMILIES = _fam()

# one-hole contexts; every ordered pair (c1, c2) gives the family (c1 ∘ c2)^d — kept when tree-sitter accepts it
CONTEXTS = {
    "with": ("with a; ", ""),
    "with-nl": ("with a;\n", ""),
    "set": ("{ x = ", "; }"),
    "set-nl": ("{\nx = ", ";\n}"),
    "rec": ("rec { x = ", "; }"),
    "attrpath": ("{ a.b = ", "; }"),
    "list": ("[ ", " ]"),
    "list-nl": ("[\n", "\n]"),
    "paren": ("(", ")"),
    "lambda": ("a: ", ""),
    "lambda-nl": ("a:\n", ""),
    "formals": ("{ a }: ", ""),
    "formal-default": ("{ a ? ", " }: a"),
    "let-body": ("let a = 1; in ", ""),
    "let-body-nl": ("let\na = 1;\nin\n", ""),
    "let-value": ("let a = ", "; in a"),
    "if-else": ("if c then 1 else ", ""),
    "if-then": ("if c then ", " else 2"),
    "if-cond": ("if ", " then 1 else 2"),
    "assert": ("assert a; ", ""),
    "assert-nl": ("assert a;\n", ""),
    "assert-cond": ("assert ", "; x"),
    "call": ("f (", ")"),
    "call-list": ("f [ ", " ]"),
    "call-set": ("f { x = ", "; }"),
    "interp": ('"${', '}"'),
    "istr": ("''${", "}''"),
    "binop-r": ("a + (", ")"),
    "binop-l": ("(", ") + a"),
    "binop-r-nl": ("a +\n(", ")"),
    "update-r": ("a // (", ")"),
    "update-r-nl": ("a\n// (", ")"),
    "concat-r": ("a ++ (", ")"),
    "impl-r-nl": ("a ->\n(", ")"),
    "select-or": ("a.b or (", ")"),
    "select-base": ("(", ").b"),
    "has-attr": ("(", ") ? a"),
    "inherit-from": ("{ inherit (", ") a; }"),
    "not": ("!(", ")"),
    "neg": ("-(", ")"),
    "comment-own": ("# c\n", ""),
    "comment-block": ("/* c */ ", ""),
    # comments on both sides of the hole (render-time copies of a node defeat any sharing keyed by identity)
    "attrpath-cc": ("{ a.b = /*c*/ ", " /*d*/; }"),
    "set-cc": ("{ x = /*c*/ ", " /*d*/; }"),
    "set-eol": ("{\nx = ", "; # d\n}"),
    "list-cc": ("[ /*c*/ ", " /*d*/ ]"),
    "list-eol": ("[\n", " # d\n]"),
    "paren-cc": ("( /*c*/ ", " /*d*/ )"),
    "call-cc": ("f ( /*c*/ ", " /*d*/ )"),
    "let-value-cc": ("let a = /*c*/ ", " /*d*/; in a"),
    "let-body-cc": ("let a = 1; in /*c*/ ", ""),
    "with-cc": ("with a; /*c*/ ", ""),
    "with-env-cc": ("with /*c*/ a /*d*/; ", ""),
    "lambda-cc": ("a: /*c*/ ", ""),
    "formal-default-cc": ("{ a ? /*c*/ ", " /*d*/ }: a"),
    "if-cc": ("if c then /*c*/ ", " /*d*/ else 2"),
    "else-cc": ("if c then 1 else /*c*/ ", ""),
    "assert-cc": ("assert a; /*c*/ ", ""),
    "binop-cc": ("a + /*c*/ (", ") /*d*/"),
    "select-cc": ("( /*c*/ ", " ).b /*d*/"),
    "inherit-from-cc": ("{ inherit ( /*c*/ ", " /*d*/ ) a; }"),
    "interp-cc": ('"${ /*c*/ ', ' /*d*/ }"'),
}


def pair_family(c1, c2):
    p1, s1 = CONTEXTS[c1]
    p2, s2 = CONTEXTS[c2]
    return lambda d: (p1 + p2) * d + "x" + (s2 + s1) * d


def _pairs():
    out = {}
    for c1 in sorted(CONTEXTS):
        for c2 in sorted(CONTEXTS):
            f = pair_family(c1, c2)
            if not cst.parse(f(2)).root.has_error:
                out[f"pair:{c1}+{c2}"] = f
    return out


# token-length families: one token (or one flat sequence) of length 8d inside a small context
LENGTH_FAMILIES = {
    "len:neg-ident": lambda d: "-" + "a" * (8 * d),
    "len:neg-select": lambda d: "-cfg" + ".ab" * (3 * d),
    "len:neg-int": lambda d: "-" + "1" * (8 * d),
    "len:neg-path": lambda d: "-./" + "ab/" * (3 * d) + "c",
    "len:not-ident": lambda d: "!" + "a" * (8 * d),
    "len:ident": lambda d: "a" * (8 * d),
    "len:select": lambda d: "cfg" + ".ab" * (3 * d),
    "len:path": lambda d: "./" + "ab/" * (3 * d) + "c",
    "len:path-dashes": lambda d: "./" + "a-b." * (2 * d) + "nix",
    "len:uri": lambda d: "https://example.org/" + "ab/" * (3 * d),
    "len:string": lambda d: '"' + "a$b\\\\n " * d + '"',
    "len:string-dollars": lambda d: '"' + "$" * (8 * d) + '"',
    "len:istring-quotes": lambda d: "''" + "'a" * (4 * d) + " ''",
    "len:comment-line": lambda d: "# " + "x " * (4 * d) + "\n1",
    "len:comment-block-stars": lambda d: "/* " + "* " * (4 * d) + "*/ 1",
    "len:attrpath-binding": lambda d: "{ a" + ".b" * (4 * d) + " = 1; }",
    "len:attrpath-quoted": lambda d: '{ "a"' + '."b c"' * (2 * d) + " = 1; }",
    "len:attrpath-spaces": lambda d: "{ a" + " . b" * (2 * d) + " = 1; }",
    "len:inherit-names": lambda d: "{ inherit" + " ab" * (3 * d) + "; }",
    "len:formals": lambda d: "{ a" + ", b" * (3 * d) + " }: a",
    "len:list-flat": lambda d: "[" + " 1" * (4 * d) + " ]",
    "len:apply-flat": lambda d: "f" + " x" * (4 * d),
    "len:has-attr-path": lambda d: "a ? b" + ".c" * (4 * d),
    "len:float": lambda d: "1." + "5" * (8 * d),
    "len:exp-float": lambda d: "1" * (4 * d) + ".5e10",
    "len:blank-lines": lambda d: "{\n" + "\n" * (2 * d) + "  a = 1;\n}",
    "len:spaces": lambda d: "{ a =" + " " * (8 * d) + "1; }",
}
# indentation-length families: an own-line comment (and the token after it) indented by 8d blanks, in every code gap of a few
# small programs — running time must not depend on how far a line is indented
IND_BASES = ["{ a ? 1, b }: a", "{ a = 1; b = [ 1 2 ]; }", "let a = 1; in a", "if a then b else c", "with a; b", "assert a; b", "a.b or c", "f a b",
             "a ++ b // c", "x: y", "{ inherit (a) b c; }", "[ 1 (a b) ]", "-a + !b", "a ? b.c", "rec { a.b = 1; }", "{ a, ... }@b: a"]


def _indent_families():
    fams = {}
    for bi, base in enumerate(IND_BASES):
        bt = cst.parse(base)
        keys = [t.key() for t in cst.tokens(bt)]
        for g in cst.code_gaps(bt):
            if g.start == 0:
                continue

            def make(d, base=base, g=g, cr=False):
                pad = " " * (8 * d)
                b = base.encode()
                return (b[: g.start] + ("\n" + pad + "# c" + ("\r" if cr else "") + "\n" + pad).encode() + b[g.end :]).decode()

            probe = make(1)
            pt = cst.parse(probe)
            if pt.root.has_error or [t.key() for t in cst.tokens(pt)] != keys:
                continue
            fams[f"ind:{bi}:{g.index}"] = make
    return fams


LENGTH_FAMILIES.update(_indent_families())
PAIR_FAMILIES = _pairs()
FAMILIES.update(LENGTH_FAMILIES)
FAMILIES.update(PAIR_FAMILIES)
# every context alone as well: one-line nests reach about 10 levels below the 250-column limit of the harness
for _c, (_p, _s) in sorted(CONTEXTS.items()):
    if not cst.parse(_p * 2 + "x" + _s * 2).root.has_error:
        FAMILIES["single:" + _c] = (lambda p, s: (lambda d: p * d + "x" + s * d))(_p, _s)
        # the same nest as the last binding of a long file (about 5 000 renders come first): sharing must not wear out with size
        if "\n" in _p + _s or len(_p + _s) <= 6:
            FAMILIES["wide:" + _c] = (lambda p, s: (lambda d: "{\n" + "".join(f"  a{i} = {{ b = 1; c = [ 1 2 ]; d = f x; e.f = \"s\"; }};\n" for i in range(200)) + "  z = " + p * d + "x" + s * d + ";\n}\n"))(_p, _s)


def work_of(text):
    """Deterministic work: number of Python call events in nix_manipulator frames during parse+rebuild."""
    nima.reset_state()
    count = 0

    def prof(frame, event, arg):
        nonlocal count
        if event == "call" and "nix_manipulator" in frame.f_code.co_filename:
            count += 1

    status = "ok"
    sys.setprofile(prof)
    try:
        with guard.time_limit(60):
            nima.parse(text).rebuild()
    except guard.EvalTimeout:
        status = "timeout"
    except ALLOWED:
        status = "refused"
    except BaseException as e:  # noqa: BLE001
        status = f"crash:{type(e).__name__}@{innermost_frame(e)}"
    finally:
        sys.setprofile(None)
    return status, count


RATIO_LIMIT = 12.0  # degree <= 3.5; the largest ratio on the current tree is 3.9 (quadratic)


def family_check(name, d):
    f = FAMILIES[name]
    t1, t2 = f(d), f(2 * d)
    if not (cst.env_ok(t1) and cst.env_ok(t2)):
        return None, {}
    if cst.parse(t1).root.has_error or cst.parse(t2).root.has_error:
        raise RuntimeError(f"family {name} produces invalid Nix at d={d}")
    s1, w1 = work_of(t1)
    s2, w2 = work_of(t2)
    if "timeout" in (s1, s2):
        # time spent outside Python frames (a backtracking regular expression) is invisible to the call counter: a text of
        # at most a few hundred bytes that needs more than 60 s is measured once more and then reported
        s1, w1 = work_of(t1)
        s2, w2 = work_of(t2)
    detail = {"family": name, "d": d, "work_d": w1, "work_2d": w2, "status": [s1, s2]}
    fails = []
    for s in (s1, s2):
        if s.startswith("crash"):
            fails.append((s, detail))
    if "timeout" in (s1, s2) or (s1 == "ok" and s2 == "ok" and w2 > RATIO_LIMIT * max(w1, 50)):
        fails.append(("superpolynomial", detail))
    return fails, detail


def replay(case):
    kind = case.get("kind")
    if kind == "family":
        fails, _ = family_check(case["family"], case["d"])
        return [(f"{k}|family:{case['family']}", d) for k, d in (fails or [])]
    text = case["text"]
    if not cst.env_ok(text):
        return []
    status, sig = run_once(text)
    if status == "crash":
        return [(f"crash:{sig}|replay" + ("|leading-ws" if text[:1].isspace() else ""), {})]
    return []


def atheris_campaign(sh, runs, max_time):
    """Coverage-guided byte-level campaign (libFuzzer via atheris) in a child process; a crash artifact is re-judged
    by run_once() here, so only the documented oracle decides.  Skipped with a note when atheris is unavailable."""
    import glob
    import os
    import re
    import shutil
    import subprocess
    import tempfile

    here = os.path.dirname(os.path.dirname(os.path.dirname(os.path.abspath(__file__))))
    target = os.path.join(here, "vf", "fuzz", "c20_target.py")
    try:
        import importlib.util

        sys.path.append(os.path.join(here, ".deps"))
        if importlib.util.find_spec("atheris") is None:
            sh.notes["atheris-unavailable"] += 1
            return
    except Exception:  # noqa: BLE001
        sh.notes["atheris-unavailable"] += 1
        return
    tmp = tempfile.mkdtemp(prefix="c20-fuzz-")
    try:
        corpus = os.path.join(tmp, "corpus")
        os.makedirs(corpus)
        if sh.index % 2 == 0:  # half of the campaigns start from the committed seeds, half from an empty corpus
            for f in glob.glob(os.path.join(here, "corpus", "C20", "*")):
                shutil.copy(f, corpus)
        env = dict(os.environ, NIMA_REPO=nima.REPO, PYTHONDONTWRITEBYTECODE="1")
        if any(q.get("flags", {}).get("skip_leading_ws") for q in (sh.quarantine or [])):
            env["VF_SKIP_LEADING_WS"] = "1"
        cmd = [sys.executable, "-B", target, f"-runs={runs}", "-max_len=200", f"-seed={sh.hseed % (2**31 - 1) + 1}", f"-max_total_time={max_time}", f"-artifact_prefix={tmp}/art-", corpus]
        try:
            p = subprocess.run(cmd, stdout=subprocess.PIPE, stderr=subprocess.STDOUT, env=env, timeout=max_time + 120)
            log = p.stdout.decode("utf-8", "replace")
        except subprocess.TimeoutExpired:
            sh.notes["atheris-timeout"] += 1
            return
        m = re.search(r"Done (\d+) runs", log) or re.search(r"stat::number_of_executed_units: (\d+)", log)
        done = int(m.group(1)) if m else 0
        sh.notes["atheris-executions"] += done
        sh.classes["atheris:" + ("seeded" if sh.index % 2 == 0 else "empty-corpus")] += 1
        sh.evaluations += done
        for art in glob.glob(os.path.join(tmp, "art-*")):
            data = open(art, "rb").read()
            try:
                text = data.decode("utf-8")
            except UnicodeDecodeError:
                continue
            if not cst.env_ok(text):
                continue
            status, sig = run_once(text)
            case = {"kind": "text", "text": text}
            if status == "crash":
                sh.fail(f"crash:{sig}|atheris" + ("|leading-ws" if text[:1].isspace() else ""), case, {"sig": sig})
            elif cst.parse(text).root.has_error:
                try:
                    if nima.rt(text) != text:
                        sh.fail("erroneous-text-not-passed-through|atheris", case, {})
                except Exception:  # noqa: BLE001
                    pass
    finally:
        shutil.rmtree(tmp, ignore_errors=True)


def plan(tier):
    return {"shards": 16, "examples": 1200 if tier == "quick" else 30000, "depths": [4, 8] if tier == "quick" else [3, 4, 6, 8, 12, 16], "pair_depths": [4, 8] if tier == "quick" else [3, 5, 8, 12], "single_depths": [5, 8, 12] if tier == "quick" else [3, 4, 5, 6, 8, 12, 16, 24], "len_depths": [2, 4, 8] if tier == "quick" else [1, 2, 3, 4, 6, 8, 12], "fuzz_runs": 30000 if tier == "quick" else 3000000, "fuzz_time": 20 if tier == "quick" else 420, "wall_limit": 300 if tier == "quick" else 2400}


def run_shard(sh):
    examples = int(sh.params["examples"] * sh.params.get("scale", 1.0))
    blocked = make_blocked(sh.quarantine)
    fam_block = {q["family"] for q in (sh.quarantine or []) if "family" in q}
    one_per = any(q.get("flags", {}).get("one_comment_per_construct") for q in (sh.quarantine or []))
    skip_lead = any(q.get("flags", {}).get("skip_leading_ws") for q in (sh.quarantine or []))
    injector = T.Injector(T.ALL_CLASSES, blocked=blocked, one_comment_per_construct=one_per)

    # ---- (c) families: each shard takes its slice
    names = sorted(FAMILIES)
    for i, name in enumerate(names):
        if i % sh.nshards != sh.index:
            continue
        for d in (sh.params["pair_depths"] if name.startswith("pair:") else sh.params["single_depths"] if name.startswith(("single:", "wide:")) else sh.params["len_depths"] if name.startswith(("len:", "ind:")) else sh.params["depths"]):
            case = {"kind": "family", "family": name, "d": d}
            if name in fam_block or any(name.startswith("pair:") and fb.startswith("ctx:") and fb[4:] in name[5:].split("+") for fb in fam_block):
                sh.excluded += 1
                continue
            fails, detail = family_check(name, d)
            if fails is None:
                continue
            sh.record(case, True, ["family:" + name])
            sh.notes[f"ratio<= {min(int((detail['work_2d'] / max(detail['work_d'], 1))), 99):02d}"] += 1
            for k, dd in fails:
                sh.fail(f"{k}|family:{name}", case, dd)

    text_strategy = st.one_of(
        st.lists(st.sampled_from(_ALPHABET), min_size=1, max_size=30).map("".join),
        st.text(max_size=40),
        st.text(alphabet=st.sampled_from(list("{}()[];=\"'$\\ \n.a1#/*:@?,")), max_size=40),
    )

    @seed(sh.hseed)
    @settings(max_examples=examples, database=None, deadline=None, suppress_health_check=list(HealthCheck), phases=[Phase.generate])
    @given(st.integers(0, 2**48), st.sampled_from(["valid", "valid", "damage", "text", "layout", "layout"]), text_strategy)
    def prop(n, mode, raw):
        if sh.over_budget():
            sh.skipped_budget += 1
            return
        sh.now(n)
        r = random.Random(n)
        perts = []
        if mode == "text":
            text = raw
        else:
            _ast, base, _b = G.program(n, include_uri=True)
            bt = cst.parse(base)
            if not cst.env_ok(base) or bt.root.has_error:
                sh.notes["generator-invalid-or-big"] += 1
                return
            if mode == "valid":
                text, perts, _g, _t, _d = T.inject(r, base, injector, tree=bt)
            elif mode == "layout":
                text = relayout(r, base, bt)
                if text is None:
                    sh.notes["relayout-changed-tokens"] += 1
                    return
            else:
                text, _op = D.damage(r, base)
        if not cst.env_ok(text):
            sh.notes["env-size-limit"] += 1
            return
        if skip_lead and mode not in ("valid", "layout") and text[:1].isspace():
            if cst.parse(text).root.has_error:
                pass  # erroneous sources are passed through raw: unaffected by F01
            else:
                sh.excluded += 1
                return
        status, sig = run_once(text)
        erroneous = cst.parse(text).root.has_error
        case = {"kind": "text", "text": text}
        sh.record(case, erroneous or bool(perts) or mode == "layout", [f"mode:{mode}", f"status:{status}", f"erroneous:{erroneous}"], refused=(status == "refused"))
        if status == "refused":
            sh.notes["refused:" + sig] += 1
        if status == "timeout":
            sh.notes["timeout-inconclusive"] += 1
        if status == "crash":
            feat = "+".join(sorted({p.feature() for p in perts})) if perts and len(perts) <= 2 else ("multi" if perts else mode)
            sh.fail(f"crash:{sig}|{feat}" + ("|leading-ws" if text[:1].isspace() else ""), case, {"sig": sig})

    prop()
    sh.excluded += injector.excluded
    atheris_campaign(sh, sh.params["fuzz_runs"], sh.params["fuzz_time"])
