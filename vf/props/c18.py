"""C18 — rebuilt text is in the formatter's spacing normal form."""

import random

from vf import cst, nima, oracles
from vf.gen import trivia as T
from vf.props import rt_common as RT

ID = "C18"
LEVEL = "exploration"
RULE = (
    "Same program generator as C01 with whitespace classes emphasised (tabs, space runs, blank-line runs, trailing spaces, "
    "leading file whitespace) plus own-line/end-of-line comments in every gap label. Oracle: lexical scan of the rebuilt "
    "text outside string and comment content: no tab, no trailing whitespace, <=1 consecutive blank line, same-line gaps "
    "are '' or ' ', nothing before the first token, ; and : attached, closing delimiters that start a line are indented "
    "like the line holding their opener. Second generator: every text written by a successful set/rm of a C05 edit history on a "
    "generated document (a rebuilt text as well) is scanned by the same oracle. Non-trivial = >=1 gap perturbed with a non-canonical whitespace class."
    ' Own-line `#` comments are checked for indentation in three positions (behind the last token: column 0; in front of a binding / list element: its column; in front of `}` / `]` of a set or list: two columns inside). `positioned_texts`: block comments sharing the line of `let` / `in` in 7 wrappers x 4 comment forms.'
)
ASSUMPTIONS = [
    "whitespace inside an interpolation of a string is string content (nima keeps strings raw)",
    "'indented with the structure they belong to' is checked for closing delimiters only (opener line indentation)",
]

CLASSES = T.WS_CLASSES + T.LINE_COMMENT_CLASSES + T.BLOCK_OWN_CLASSES
_W = [4] * len(T.WS_CLASSES) + [1] * (len(CLASSES) - len(T.WS_CLASSES))


def check(text, tree):
    status, out = RT.rebuild(text)
    if status == "refused":
        return "refused", [(out, {})]
    if status == "crash":
        return "skip:crash", []
    out_tree = cst.parse(out)
    if cst.errors(out_tree):
        return "skip:invalid-output", []
    fails = oracles.c18(out_tree)
    return "ok", [(k, dict(d, out=out[:300])) for k, d in fails]


def _nontrivial(ast, perts, status, text):
    return any(p.cls in ("spN", "tab", "blankN", "blank_ws", "trail_nl", "nl_ind", "blank") for p in perts)


CFG = RT.Config(ID, CLASSES, check, weights=_W, allow_string_interp=False, allow_attrpath=False, nontrivial=_nontrivial)


def plan(tier):
    return {"shards": 16, "examples": 2800 if tier == "quick" else 20000, "wall_limit": 240 if tier == "quick" else 2400}


def edit_outputs(sh, examples):
    """Second generator: the text written by a successful `set` / `rm` is a rebuilt text too (rebuild() of the edited
    tree); histories of the C05 engine on generated documents, every emitted text scanned by the same oracle."""
    from hypothesis import HealthCheck, Phase, given, seed, settings
    from hypothesis import strategies as st

    from vf.props import c05

    doc_kw, op_kw, flags = c05.params_from_quarantine(sh.quarantine)

    @seed(sh.hseed + 11)
    @settings(max_examples=examples, database=None, deadline=None, suppress_health_check=list(HealthCheck), phases=[Phase.generate])
    @given(st.integers(0, 2**48))
    def prop(n):
        if sh.over_budget():
            sh.skipped_budget += 1
            return
        g = c05.gen_case(n, kw=doc_kw, scoped_bias=0.3, op_kw=op_kw, flags=flags)
        if g is None:
            return
        text, ops, mode = g
        bad = []

        def collect(cur, op, path, value, out, notes):
            if bad or not cst.env_ok(out):
                return
            tree = cst.parse(out)
            if tree.root.has_error:
                return
            fl = oracles.c18(tree)
            cls = "+".join(x for x in notes if not x.startswith("layer-"))
            for kind, d in fl[:1]:
                bad.append((f"edit-output:{kind}|{op}|{cls}", dict(d, doc=cur[:400], op=[op, path, value])))

        _f, info = c05.run_case(text, ops, mode, collect=collect)
        case = {"doc": text, "ops": [list(o) for o in ops], "mode": mode}
        sh.record(case, info.get("ok_steps", 0) >= 1, ["edit-history", f"oksteps:{min(info.get('ok_steps', 0), 5)}"])
        for sig, d in bad[:1]:
            sh.fail(sig, case, d)
        # the same through the mapping API: delete 1-3 leaves below the top level (an emptied attrpath node stays visible)
        mcase = mapping_deletes(text, random.Random(n))
        if mcase is not None:
            fl = replay(mcase)
            sh.record(mcase, True, ["mapping-deletes"])
            for k, d in fl[:1]:
                sh.fail(k, mcase, d)

    prop()


def mapping_deletes(text, r):
    from vf.model import attrs as A
    from vf.model import names as N
    from vf.props import edit_common as E

    view = A.View(text)
    if not view.valid or view.core is None or "alias" in view.kinds:
        return None
    paths = [p for p, e in E.all_paths(view.core["set"]) if len(p) >= 2 and not A.is_set(e)]
    if not paths:
        return None
    chosen = r.sample(paths, min(len(paths), r.randint(1, 3)))
    return {"doc": text, "mapping_del": [[N.encode_segment(x) for x in p] for p in chosen]}


def _mapping_run(case):
    src = nima.parse(case["doc"])
    done = 0
    for path in case["mapping_del"]:
        try:
            obj = src
            for k in path[:-1]:
                obj = obj[k]
            del obj[path[-1]]
            done += 1
        except Exception:  # noqa: BLE001 - refusals are C14's business
            continue
    if not done:
        return []
    out = src.rebuild()
    tree = cst.parse(out)
    if not cst.env_ok(out) or tree.root.has_error:
        return []
    return [(f"mapping-output:{k}", dict(d, out=out[:400])) for k, d in oracles.c18(tree)[:1]]


def positioned_texts(sh):
    """Block comments that share the line of a keyword (`let /* c */`, `let /*` + lines + `*/`) at every nesting depth the
    layout rules distinguish: the injected-trivia generator of this check only places comments on lines of their own or at
    the end of a line.  Each text is valid; the rebuilt text must be in normal form."""
    import random

    r = random.Random(sh.hseed + 23)
    forms = [lambda ind: "/* c */", lambda ind: "/** doc */", lambda ind: "/* first\n" + ind + "   second */", lambda ind: "/*\n" + ind + "  first\n" + ind + "  second\n" + ind + "*/"]
    wraps = [("{0}", 0), ("{{\n  a = {0};\n}}", 2), ("[\n  ({0})\n]", 2), ("x:\n{0}", 0), ("{{\n  a = {{\n    b = {0};\n  }};\n}}", 4), ("{{\n  a = [\n    ({0})\n  ];\n}}", 4), ("f ({0})", 0)]
    n = 0
    for wi, (w, ind) in enumerate(wraps):
        for fi, form in enumerate(forms):
            n += 1
            if n % sh.nshards != sh.index:
                continue
            pad = " " * ind
            for let in ("let {c}\n" + pad + "  b = 1;\n" + pad + "in\n" + pad + "b", "let {c} b = 1; in b", "let\n" + pad + "  b = 1;\n" + pad + "in {c}\n" + pad + "b"):
                text = w.format(let.format(c=form(pad))) + "\n"
                tree = cst.parse(text)
                if tree.root.has_error or not cst.env_ok(text):
                    sh.notes["positioned-invalid"] += 1
                    continue
                status, fails = check(text, tree)
                case = {"text": text, "perts": []}
                sh.record(case, True, ["positioned", f"wrap:{wi}", f"form:{fi}"])
                if status == "ok":
                    for k, d in fails[:1]:
                        sh.fail(f"{k}|positioned|wrap{wi}|form{fi}", case, d)
    del r


def run_shard(sh):
    RT.run_shard(sh, CFG)
    positioned_texts(sh)
    edit_outputs(sh, max(20, int(sh.params["examples"] * sh.params.get("scale", 1.0)) // 8))


def replay(case):
    if "mapping_del" in case:
        return _mapping_run(case)
    if "ops" in case:
        from vf.props import c05

        bad = []

        def collect(cur, op, path, value, out, notes):
            tree = cst.parse(out)
            if not bad and cst.env_ok(out) and not tree.root.has_error:
                bad.extend((f"edit-output:{k}", d) for k, d in oracles.c18(tree)[:1])

        c05.run_case(case["doc"], [tuple(o) for o in case["ops"]], case.get("mode", "reparse"), collect=collect)
        return bad
    return RT.replay(case, CFG)
