"""C18 — rebuilt text is in the formatter's spacing normal form."""

from vf import cst, oracles
from vf.gen import trivia as T
from vf.props import rt_common as RT

ID = "C18"
LEVEL = "exploration"
RULE = (
    "Same program generator as C01 with whitespace classes emphasised (tabs, space runs, blank-line runs, trailing spaces, "
    "leading file whitespace) plus own-line/end-of-line comments in every gap label. Oracle: lexical scan of the rebuilt "
    "text outside string and comment content: no tab, no trailing whitespace, <=1 consecutive blank line, same-line gaps "
    "are '' or ' ', nothing before the first token, ; and : attached, closing delimiters that start a line are indented "
    "like the line holding their opener. Non-trivial = >=1 gap perturbed with a non-canonical whitespace class."
)
ASSUMPTIONS = [
    "whitespace inside an interpolation of a string is string content (nima keeps strings raw)",
    "'indented with the structure they belong to' is checked for closing delimiters only (opener line indentation)",
]

CLASSES = T.WS_CLASSES + T.LINE_COMMENT_CLASSES + T.BLOCK_OWN_CLASSES
_W = [4] * len(T.WS_CLASSES) + [1] * (len(CLASSES) - len(T.WS_CLASSES))


def check(text, tree):
    status, out = RT.rebuild(text)
    if status == "refused":
        return "refused", [(out, {})]
    if status == "crash":
        return "skip:crash", []
    out_tree = cst.parse(out)
    if cst.errors(out_tree):
        return "skip:invalid-output", []
    fails = oracles.c18(out_tree)
    return "ok", [(k, dict(d, out=out[:300])) for k, d in fails]


def _nontrivial(ast, perts, status, text):
    return any(p.cls in ("spN", "tab", "blankN", "blank_ws", "trail_nl", "nl_ind", "blank") for p in perts)


CFG = RT.Config(ID, CLASSES, check, weights=_W, allow_string_interp=False, allow_attrpath=False, nontrivial=_nontrivial)


def plan(tier):
    return {"shards": 16, "examples": 2800 if tier == "quick" else 20000, "wall_limit": 240 if tier == "quick" else 2400}


def run_shard(sh):
    RT.run_shard(sh, CFG)


def replay(case):
    return RT.replay(case, CFG)
