"""C08 — a rejected edit is loud and leaves the document exactly as it was."""

import copy
import random

from hypothesis import HealthCheck, Phase, seed, settings
from hypothesis import strategies as st
from hypothesis.stateful import RuleBasedStateMachine, initialize, invariant, precondition, rule, run_state_machine_as_test

from vf import cst, nima
from vf.gen import docs as D
from vf.model import attrs as A
from vf.props import c05 as base
from vf.props import edit_common as E

ID = "C08"
LEVEL = "exploration"
RULE = (
    "Hypothesis rule-based state machine over ONE document object (editable documents from the C05 generator, plus non-editable ones: list, "
    "two top-level expressions, empty, erroneous). Rules: a well-formed edit (model-predicted success), and failing edits of every listed class - "
    "missing key, empty path, `..`, unterminated quote, dangling escape, `@` alone, path through a leaf/list/lambda, overwrite of an attrpath root, "
    "missing scope layer, invalid VALUE (empty, two expressions, syntax error), unsupported top-level shape - interleaved arbitrarily, plus a "
    "re-parse rule. After every failing call: the exception is KeyError or ValueError, the object still rebuilds to exactly the previous text, and a "
    "structural snapshot of the tree is unchanged; after every later successful call the result equals the same call on a fresh parse of the "
    "pre-call text. Each failing class is also sent through the in-process CLI (non-zero status / exception, empty stdout). Non-trivial = a history "
    "with >=1 failing operation followed by >=1 succeeding one."
)
ASSUMPTIONS = base.ASSUMPTIONS + ["the differential 'as if the failed edit never happened' compares with a fresh parse of the text the object produced before the call"]

NON_EDITABLE = ["[ 1 2 ]", "{ a = 1; } { b = 2; }", "", "1", "x: x", "{ a = ; }", "\"str\"", "f [ 1 ]", "# only a comment\n", "let a = 1; in a",
                # a name body that does not lead to a set under lexical scoping (outer layer referring to an inner-only name, cycle, unbound name)
                "let\n  s = t;\nin\nlet\n  t = { a = 1; };\nin\ns\n", "let a = b; b = a; in a", "let s = t; in s", "let\n  s = t;\nin\nlet\n  t = { a = 1; };\nin\nf s\n"]
BAD_PATHS = ["a\n", "meta.version\n", "meta\n.version", "@a\n", " a", "a ", "\ta", "", "a..b", ".a", "a.", 'a."b', 'a."b\\', "@", "@@", "@.", 'foo"bar"', "a b", "a.b-c", "1a", "a.$", "a.\n", "@a..b", '"x"y']
BAD_VALUES = ["", " ", "1 2 3;", "{ a = ; }", "[ 1", "# c", "a b; c", "}", "let in", "'' open", "1;"]


def snapshot(obj, depth=0, seen=None):
    """Identity-insensitive structural snapshot of an expression tree (dataclass slots, lists, dicts)."""
    seen = seen if seen is not None else set()
    if depth > 60:
        return "…"
    if obj is None or isinstance(obj, (str, int, float, bool, bytes)):
        return obj
    if id(obj) in seen:
        return "<cycle>"
    if isinstance(obj, (list, tuple)):
        seen.add(id(obj))
        res = [type(obj).__name__] + [snapshot(x, depth + 1, seen) for x in obj]
        seen.discard(id(obj))
        return res
    if isinstance(obj, dict):
        seen.add(id(obj))
        res = {str(k): snapshot(v, depth + 1, seen) for k, v in obj.items()}
        seen.discard(id(obj))
        return res
    cls = type(obj)
    if cls.__module__.startswith("tree_sitter") or cls.__name__ in ("Node", "Tree"):
        return "<cst>"
    names = []
    for klass in cls.__mro__:
        names.extend(getattr(klass, "__slots__", ()))
    if hasattr(obj, "__dict__"):
        names.extend(vars(obj).keys())
    names = [n for n in dict.fromkeys(names) if n not in ("__weakref__", "owner", "node")]
    if not names:
        return f"<{cls.__name__}>"
    seen.add(id(obj))
    res = {"__class__": cls.__name__}
    for n in names:
        try:
            res[n] = snapshot(getattr(obj, n), depth + 1, seen)
        except AttributeError:
            pass
    seen.discard(id(obj))
    return res


def has_mixed_root(text) -> bool:
    """A root defined both by an explicit set binding and by attrpath bindings (`a = { … }; a.zq = 2;`)."""
    v = A.View(text)
    if not v.valid or v.core is None:
        return False
    explicit = {e["path"][0] for e in v.core["set"] if e["inh"] is None and len(e["path"]) == 1}
    return any(e["inh"] is None and len(e["path"]) > 1 and e["path"][0] in explicit for e in v.core["set"])


def add_mixed_root(text, r):
    """Valid but unusual shape: an explicit set binding followed by an attrpath binding of the same root
    (`a = { x = 1; }; a.zq = 2;`).  Only the rejection clauses are exercised on such roots."""
    v = A.View(text)
    if not v.valid or v.core is None or b"\n" not in v.tree.src[v.core_node.start_byte : v.core_node.end_byte]:
        return text
    roots = [e["path"][0] for e in v.core["set"] if e["inh"] is None and len(e["path"]) == 1 and A.is_set(e) and not any(k == "quoted" for k in e.get("kinds", ()))]
    if not roots:
        return text
    name = r.choice(roots)
    src = v.tree.src
    end = v.core_node.end_byte - 1
    ls = src.rfind(b"\n", 0, end) + 1
    new = src[:ls] + f"  {name}.zq = 2;\n".encode() + src[ls:]
    out = new.decode()
    return out if cst.strictly_valid(out) else text


def make_machine(sh, doc_kw, op_kw, flags):
    class Machine(RuleBasedStateMachine):
        def __init__(self):
            super().__init__()
            self.dead = False
            self.history = []
            self.had_fail = False
            self.fail_then_ok = False

        @initialize(n=st.integers(0, 2**40), editable=st.booleans() | st.just(True))
        def start(self, n, editable):
            nima.reset_state()
            self.r = random.Random(n)
            if editable:
                _d, text = D.make(n, **doc_kw)
                if self.r.random() < 0.2:
                    text = add_mixed_root(text, self.r)
            else:
                text = self.r.choice(NON_EDITABLE)
            self.text0 = text
            self.src = nima.parse(text)
            self.twin = nima.parse(text)  # receives only the operations that succeed on self.src
            self.cur = self.src.rebuild()
            self.view = A.View(self.cur)
            self.model = A.Model(self.view) if self.view.valid and self.view.core is not None else None
            self.editable = self.model is not None
            sh.now(n)

        def _case(self):
            return {"doc": self.text0, "ops": [list(h) for h in self.history]}

        def _record_failure(self, kind, detail):
            self.dead = True
            sh.fail(kind, self._case(), dict(detail, history_len=len(self.history)))

        def _do(self, op, path, value, expect):
            """Run one operation on the shared object and check the C08 clauses."""
            if self.dead:
                return
            before_text = self.cur
            snap = snapshot(self.src.expressions) if expect != "ok" else None
            self.history.append((op, path, value, expect))
            status, res, _ = E.run_op(self.src, op, path, value)
            if status == "timeout":
                self.dead = True
                return
            if status == "raise":
                if not isinstance(res, (KeyError, ValueError)):
                    return self._record_failure(f"wrong-exception:{type(res).__name__}|{expect}", {"exc": E.exc_sig(res), "op": [op, path, value], "doc": before_text[:300]})
                try:
                    after = self.src.rebuild()
                except Exception as e:  # noqa: BLE001
                    return self._record_failure(f"rebuild-raises-after-rejected-edit|{expect}", {"exc": E.exc_sig(e), "op": [op, path, value]})
                if after != before_text:
                    return self._record_failure(f"document-changed-by-rejected-edit|{expect}", {"op": [op, path, value], "before": before_text[:300], "after": after[:300]})
                if snap is not None and snapshot(self.src.expressions) != snap:
                    return self._record_failure(f"tree-changed-by-rejected-edit|{expect}", {"op": [op, path, value], "doc": before_text[:300]})
                self.had_fail = True
                sh.classes[f"reject:{expect}"] += 1
                return
            if expect != "ok":
                return self._record_failure(f"accepted-edit-that-must-be-rejected|{expect}" + ("|mixed-root" if has_mixed_root(before_text) else ""), {"op": [op, path, value], "out": str(res)[:300], "doc": before_text[:300]})
            # success: the twin document, which never saw a failing call, must produce the same text
            out = res
            st2, res2, _ = E.run_op(self.twin, op, path, value)
            if st2 != "ok":
                return self._record_failure(f"succeeds-only-after-failed-edits|{expect}", {"op": [op, path, value], "twin_exc": E.exc_sig(res2) if st2 == "raise" else st2, "doc": before_text[:300]})
            if res2 != out:
                return self._record_failure("later-edit-differs-after-failed-edit", {"op": [op, path, value], "with_failed_edits": out[:300], "without": res2[:300], "doc": before_text[:300]})
            if self.had_fail:
                self.fail_then_ok = True
            self.cur = out
            sh.classes[f"accept:{expect}"] += 1
            self.view = A.View(out)
            if self.view.valid and self.view.core is not None:
                self.model = A.Model(self.view)

        @rule(n=st.integers(0, 2**32))
        def good_edit(self, n):
            if self.dead or not self.editable or self.model is None:
                return
            r = random.Random(n)
            sb = 0.0 if ((flags.get("no_scoped_on_call") and self.view.kinds and self.view.kinds[-1] == "call") or (flags.get("scoped_needs_adjacent_lets") and not self.view.lets_adjacent()) or (flags.get("no_scoped_in_paren") and "paren" in self.view.kinds)) else 0.2
            for _ in range(6):
                op, path, value, cls = E.gen_op(r, self.model, scoped_bias=sb, failing_bias=0.0, **op_kw)
                if path.startswith("@"):
                    if flags.get("no_create_layer_under_with") and op == "set" and not self.model.layers and self.view.kinds and self.view.kinds[-1] in ("with", "assert"):
                        continue
                    if flags.get("no_drop_only_layer") and op == "rm" and len(self.model.layers) == 1 and len(self.model.layers[0]) == 1:
                        continue
                m = copy.deepcopy(self.model)
                try:
                    m.apply(op, path, value)
                except A.Refuse:
                    continue
                except A.Unspecified:
                    # not judged against the model, except: an accepted edit never defines a name twice
                    st_u, res_u, _s = E.run_op(self.cur, op, path, value)
                    if st_u == "ok" and isinstance(res_u, str):
                        dups = [d for d in A.duplicate_names(res_u) if d not in A.duplicate_names(self.cur)]
                        if dups:
                            self.history.append((op, path, value, "unspecified"))
                            return self._record_failure(f"accepted-edit-defines-name-twice|{cls}", {"op": [op, path, value], "names": dups, "out": res_u[:300], "doc": self.cur[:300]})
                    continue
                return self._do(op, path, value, "ok")

        @rule(n=st.integers(0, 2**32))
        def model_rejected_edit(self, n):
            if self.dead or not self.editable or self.model is None:
                return
            r = random.Random(n)
            for _ in range(6):
                op, path, value, cls = E.gen_op(r, self.model, scoped_bias=0.2, failing_bias=1.0, **op_kw)
                m = copy.deepcopy(self.model)
                try:
                    m.apply(op, path, value)
                except A.Refuse as rf:
                    return self._do(op, path, value, rf.reason)
                except A.Unspecified:
                    continue

        @rule(op=st.sampled_from(["set", "rm"]))
        def attrpath_root_edit(self, op):
            """Overwrite / removal of a name that is the root of attrpath-form bindings must be rejected."""
            if self.dead or not self.editable or self.model is None:
                return
            roots = sorted({e["path"][:1] for e in self.model.core if e["inh"] is None and len(e["path"]) > 1})
            if not roots:
                return
            S = self.r.choice(roots)
            self._do(op, E.enc(S), "5" if op == "set" else None, "attrpath-root")

        @rule(path=st.sampled_from(BAD_PATHS), op=st.sampled_from(["set", "rm"]))
        def malformed_path(self, path, op):
            self._do(op, path, "1" if op == "set" else None, "malformed-path")

        @rule(value=st.sampled_from(BAD_VALUES), path=st.sampled_from(["a", "b.c", "@v", "version"]))
        def invalid_value(self, value, path):
            self._do("set", path, value, "invalid-value")

        @precondition(lambda self: not self.editable)
        @rule(op=st.sampled_from(["set", "rm"]), path=st.sampled_from(["a", "a.b", "@a"]))
        def unsupported_shape(self, op, path):
            self._do(op, path, "1" if op == "set" else None, "unsupported-top-level")

        @rule()
        def reparse(self):
            if self.dead:
                return
            try:
                self.src = nima.parse(self.cur)
                self.twin = nima.parse(self.cur)
            except Exception as e:  # noqa: BLE001
                return self._record_failure("emitted-text-cannot-be-parsed", {"exc": E.exc_sig(e), "text": self.cur[:300]})
            self.history.append(("reparse", None, None, "ok"))

        @invariant()
        def text_tracks_object(self):
            if self.dead or not hasattr(self, "src"):
                return
            try:
                now = self.src.rebuild()
            except Exception as e:  # noqa: BLE001
                return self._record_failure("rebuild-raises", {"exc": E.exc_sig(e)})
            if now != self.cur:
                self._record_failure("object-text-diverged", {"expected": self.cur[:300], "got": now[:300]})

        def teardown(self):
            if hasattr(self, "src"):
                n_fail = sum(1 for h in self.history if h[3] not in ("ok",))
                sh.record(self._case(), self.fail_then_ok, [f"hist:{min(len(self.history), 10)}", f"fails:{min(n_fail, 5)}", "editable" if self.editable else "non-editable"])

    return Machine


def cli_clause(sh, doc_kw):
    """Each failing class through the in-process CLI: non-zero / exception and empty stdout."""
    r = random.Random(sh.hseed)
    for i in range(60):
        _d, text = D.make(r.randrange(2**40), **doc_kw)
        kind = r.choice(["bad-path", "bad-value", "missing", "non-editable"])
        if kind == "bad-path":
            argv = [r.choice(["set", "rm"]), r.choice(BAD_PATHS)]
            if argv[0] == "set":
                argv.append("1")
        elif kind == "bad-value":
            argv = ["set", "a", r.choice(BAD_VALUES)]
        elif kind == "missing":
            argv = ["rm", "no_such_key_zz"]
        else:
            text = r.choice(NON_EDITABLE)
            argv = ["set", "a", "1"]
        if argv[1].startswith("-") or (len(argv) > 2 and argv[2].startswith("-")):
            continue
        code, so, se, exc = nima.cli(argv, text)
        case = {"doc": text, "argv": argv}
        sh.record(case, True, ["cli:" + kind])
        if so != "":
            sh.fail(f"cli-stdout-not-empty|{kind}", case, {"stdout": so[:200], "code": code})
        elif exc is None and code == 0:
            sh.fail(f"cli-exit-zero|{kind}", case, {"code": code})
        elif exc is not None and not isinstance(exc, (KeyError, ValueError)):
            sh.fail(f"cli-wrong-exception:{type(exc).__name__}|{kind}", case, {"exc": repr(exc)[:200]})


def replay(case):
    """Re-run a recorded history outside Hypothesis."""
    if "argv" in case:
        code, so, se, exc = nima.cli(case["argv"], case["doc"])
        if so != "":
            return [("cli-stdout-not-empty", {"stdout": so[:100]})]
        if exc is None and code == 0:
            return [("cli-exit-zero", {})]
        return []
    nima.reset_state()
    src = nima.parse(case["doc"])
    twin = nima.parse(case["doc"])
    cur = src.rebuild()
    fails = []
    for op, path, value, expect in case["ops"]:
        if op == "reparse":
            src = nima.parse(cur)
            twin = nima.parse(cur)
            continue
        before = cur
        status, res, _ = E.run_op(src, op, path, value)
        if status == "ok" and expect != "ok":
            fails.append((f"accepted-edit-that-must-be-rejected|{expect}" + ("|mixed-root" if has_mixed_root(before) else ""), {"op": [op, path, value], "out": str(res)[:200]}))
            break
        if status == "raise":
            if not isinstance(res, (KeyError, ValueError)):
                fails.append((f"wrong-exception:{type(res).__name__}", {"op": [op, path, value]}))
                break
            try:
                after = src.rebuild()
            except Exception as e:  # noqa: BLE001
                fails.append(("rebuild-raises-after-rejected-edit", {"exc": E.exc_sig(e)}))
                break
            if after != before:
                fails.append(("document-changed-by-rejected-edit", {"op": [op, path, value], "before": before[:200], "after": after[:200]}))
                break
        elif status == "ok":
            st2, res2, _ = E.run_op(twin, op, path, value)
            if st2 != "ok":
                fails.append(("succeeds-only-after-failed-edits", {"op": [op, path, value]}))
                break
            if res2 != res:
                fails.append(("later-edit-differs-after-failed-edit", {"op": [op, path, value], "with_failed_edits": res[:200], "without": res2[:200]}))
                break
            cur = res
    return fails


def plan(tier):
    return {"shards": 16, "examples": 120 if tier == "quick" else 2500, "steps": 15 if tier == "quick" else 25, "wall_limit": 300 if tier == "quick" else 2400}


def run_shard(sh):
    examples = int(sh.params["examples"] * sh.params.get("scale", 1.0))
    doc_kw, op_kw, flags = base.params_from_quarantine(sh.quarantine)
    Machine = make_machine(sh, doc_kw, op_kw, flags)
    cli_clause(sh, doc_kw)
    run_state_machine_as_test(
        seed(sh.hseed)(Machine),
        settings=settings(max_examples=examples, stateful_step_count=sh.params["steps"], database=None, deadline=None, suppress_health_check=list(HealthCheck), phases=[Phase.generate], report_multiple_bugs=False),
    )
