"""C16 — the command line reports and emits exactly what the library computes."""

import os
import random
import subprocess
import sys
import tempfile

from hypothesis import HealthCheck, Phase, given, seed, settings
from hypothesis import strategies as st

from vf import cst, nima
from vf.gen import damage as Dm
from vf.gen import docs as D
from vf.gen import grammar as G
from vf.gen import trivia as T
from vf.model import attrs as A
from vf.model import names as N
from vf.props import c05 as base
from vf.props import edit_common as E

ID = "C16"
LEVEL = "exploration"
RULE = (
    "Inputs: canonical documents (C05 generator), non-canonical programs (C01 generator with trivia), damaged/erroneous texts (C07 operators), "
    "the empty text, and variants with 0, 1, 2, 3 final newlines or a BOM. Commands: test; set PATH VALUE and rm PATH with succeeding arguments "
    "(model-chosen) and failing ones (bad path, bad value, missing key). Each through the in-process entry point on both channels (stdin and -f FILE); "
    "a per-shard sample additionally through a real `python -m nix_manipulator` subprocess. Oracle: test prints OK/exit 0 iff the text is free of syntax "
    "errors and the library rebuild is byte-identical, else Fail/exit 1; a successful set/rm prints exactly the library's text plus one line terminator "
    "iff the text lacks one, exits 0, and feeding that stdout back to test gives OK whenever the library text is a fixed point; a failing one prints "
    "nothing on stdout and exits non-zero (or raises); stdin and -f give identical stdout/status. Non-trivial = input ends with a newline, or the command fails."
)
ASSUMPTIONS = ["library verdicts are computed with nix_manipulator.parse / set_value / remove_value in the same process; validity with tree-sitter's has_error"]


def _channels(argv, text, tmpdir):
    """Run argv through stdin and through -f FILE.  Returns list of (channel, code, stdout, exc)."""
    res = []
    code, so, se, exc = nima.cli(argv, text)
    res.append(("stdin", code, so, exc))
    path = os.path.join(tmpdir, "in.nix")
    with open(path, "w", encoding="utf-8", newline="") as fh:
        fh.write(text)
    code, so, se, exc = nima.cli([argv[0], "-f", path] + argv[1:], None)
    res.append(("file", code, so, exc))
    return res


def lib_test_verdict(text):
    if cst.parse(text).root.has_error:
        return False
    try:
        return nima.rt(text) == text
    except Exception:  # noqa: BLE001
        return None  # library refuses: CLI behaviour is an exception, not judged here


def judge(argv, text, tmpdir, judge_all=False):
    fails = []
    runs = _channels(argv, text, tmpdir)
    (c1, code1, so1, exc1), (c2, code2, so2, exc2) = runs
    if (code1, so1, type(exc1)) != (code2, so2, type(exc2)):
        fails.append(("stdin-vs-file-differ", {"stdin": [code1, so1[:120], repr(exc1)[:80]], "file": [code2, so2[:120], repr(exc2)[:80]]}))
    code, so, exc = code1, so1, exc1
    cmd = argv[0]
    if cmd == "test":
        v = lib_test_verdict(text)
        if v is None:
            if so != "" and so != "Fail\n":
                fails.append(("test-output-on-library-refusal", {"stdout": so[:80]}))
            return fails, "lib-refuses"
        want = ("OK\n", 0) if v else ("Fail\n", 1)
        if exc is not None or (so, code) != want:
            fails.append(("test-verdict-wrong", {"want": list(want), "got": [so, code], "exc": repr(exc)[:100]}))
        return fails, "ok" if v else "fail"
    # set / rm
    try:
        src = nima.parse(text)
        lib = nima.set_value(src, argv[1], argv[2]) if cmd == "set" else nima.remove_value(src, argv[1])
        lib_exc = None
    except Exception as e:  # noqa: BLE001
        lib, lib_exc = None, e
    if lib_exc is not None:
        if so != "":
            fails.append(("stdout-on-error", {"stdout": so[:120]}))
        if exc is None and code == 0:
            fails.append(("exit-zero-on-error", {"lib_exc": repr(lib_exc)[:100]}))
        return fails, "edit-fails"
    want = lib if lib.endswith("\n") else lib + "\n"
    if exc is not None or code != 0:
        fails.append(("edit-succeeds-in-library-but-cli-fails", {"code": code, "exc": repr(exc)[:100]}))
    elif so != want:
        fails.append(("stdout-differs-from-library-text", {"want_tail": want[-30:], "got_tail": so[-30:], "len": [len(want), len(so)]}))
    else:
        # redirecting the output over the file and running test
        # the statement promises that `nima test` accepts the redirected output of every successful edit of a file that
        # ended in a newline (inputs of the harness-size limit aside); texts from the arbitrary-program generator are
        # judged only when they are fixed points (their non-fixed-point findings belong to C06's tables)
        try:
            fixed = cst.env_ok(lib) and not cst.parse(lib).root.has_error and (judge_all or nima.rt(lib) == lib)
        except Exception:  # noqa: BLE001
            fixed = False
        # (a text that starts with a byte-order mark or whitespace is finding F01's input class: every gap offset is
        # shifted and the edit output is no fixed point; the channel and stdout clauses above are still judged for it)
        if fixed and text.endswith("\n") and not (text[:1].isspace() or text.startswith("\ufeff")):
            c3, so3, _se, e3 = nima.cli(["test"], so)
            if (so3, c3) != ("OK\n", 0):
                fails.append(("test-rejects-emitted-file", {"stdout": so3, "code": c3}))
    return fails, "edit-ok"


def subprocess_check(argv, text, tmpdir):
    """The same command through a real interpreter: must agree with the in-process run on stdout and status."""
    env = dict(os.environ, PYTHONPATH=nima.REPO, PYTHONDONTWRITEBYTECODE="1")
    p = subprocess.run([sys.executable, "-B", "-m", "nix_manipulator"] + argv, input=text.encode("utf-8"), stdout=subprocess.PIPE, stderr=subprocess.PIPE, env=env, cwd=tmpdir, timeout=60)
    code, so, se, exc = nima.cli(argv, text)
    want_code = code if exc is None else None
    got = p.stdout.decode("utf-8", "replace")
    fails = []
    if got != so:
        fails.append(("subprocess-stdout-differs", {"inproc": so[-60:], "subprocess": got[-60:]}))
    if exc is None and p.returncode != code:
        fails.append(("subprocess-status-differs", {"inproc": code, "subprocess": p.returncode}))
    if exc is not None and p.returncode == 0:
        fails.append(("subprocess-exit-zero-on-exception", {"exc": repr(exc)[:80]}))
    return fails


def gen_input(r, n, doc_kw):
    kind = r.choice(["canonical", "canonical", "noncanonical", "erroneous", "empty", "newlines"])
    if kind in ("canonical", "newlines"):
        _d, text = D.make(n, **doc_kw)
        if kind == "newlines":
            text = text.rstrip("\n") + "\n" * r.choice([0, 1, 2, 3])
            if r.random() < 0.1:
                text = "﻿" + text
    elif kind == "noncanonical":
        _a, base_t, _b = G.program(n)
        bt = cst.parse(base_t)
        if bt.root.has_error or not cst.env_ok(base_t):
            return "empty", ""
        inj = T.Injector(T.WS_CLASSES + T.LINE_COMMENT_CLASSES)
        text, *_ = T.inject(r, base_t, inj, tree=bt)
        if r.random() < 0.5:
            text += "\n"
    elif kind == "erroneous":
        _d, base_t = D.make(n, **doc_kw)
        text, _op = Dm.damage(r, base_t)
    else:
        text = r.choice(["", "\n", " ", "\n\n"])
    # carriage returns are translated by Python's text I/O layer (universal newlines) before nima sees
    # the text, differently for a StringIO stand-in and a real file: outside nima, not generated
    text = text.replace("\r", "")
    if not cst.env_ok(text):
        return "empty", ""
    return kind, text


def gen_command(r, text, op_kw, flags):
    x = r.random()
    if x < 0.35:
        return ["test"], "test"
    view = A.View(text)
    if view.valid and view.core is not None and x < 0.8:
        model = A.Model(view)
        sb = 0.0 if ((flags.get("no_scoped_on_call") and view.kinds and view.kinds[-1] == "call") or (flags.get("scoped_needs_adjacent_lets") and not view.lets_adjacent()) or (flags.get("no_scoped_in_paren") and "paren" in view.kinds)) else 0.15
        op, path, value, cls = E.gen_op(r, model, scoped_bias=sb, failing_bias=0.25, **op_kw)
        if path.startswith("@") and ((flags.get("no_create_layer_under_with") and op == "set" and not model.layers and view.kinds and view.kinds[-1] in ("with", "assert")) or (flags.get("no_drop_only_layer") and op == "rm" and len(model.layers) == 1 and len(model.layers[0]) == 1)):
            return ["test"], "test"
        if path.startswith("-") or (value or "").startswith("-"):
            return ["test"], "test"
        import copy

        try:
            copy.deepcopy(model).apply(op, path, value)
        except A.Refuse as rf:
            cls = cls + "!must-fail:" + rf.reason
        except A.Unspecified:
            pass
        return ([op, path, value] if op == "set" else [op, path]), "edit:" + cls
    y = r.random()
    if view.valid and view.core is not None and y < 0.3:
        # names that must be quoted (C12's critical classes), spelled with raw characters or with NPath escapes
        nm = r.choice(["b\n", "a b", "x\ty", 'q"r', "é", "a.b", "${x}", "1st", "if", "back\\slash", "", "-", "a\nb", "tab\t"])
        seg = N.encode_segment(nm)
        if r.random() < 0.5:
            seg = seg.replace("\n", "\\n").replace("\t", "\\t")
        path = (r.choice(["", "", "new."]) + seg)
        return ["set", path, r.choice(["1", '"v"', "[ ]"])], "edit:hard-name"
    if y < 0.55:
        return ["set", r.choice(["a..b", 'a."b', "", "@", "a b", " a", "a ", "a\n", "\ta", "new ", " @x", '"two words" ']) or "a..b", "1"], "bad-path"
    if y < 0.8:
        return ["set", "a", r.choice(["", "1 2;", "{ a = ; }", "[ 1"])], "bad-value"
    return ["rm", "no_such_key"], "missing-key"


def replay(case):
    with tempfile.TemporaryDirectory() as td:
        fails, outcome = judge(case["argv"], case["text"], td, judge_all=bool(case.get("judge_all")))
        if case.get("must_fail") and outcome == "edit-ok":
            fails = fails + [("exit-zero-on-edit-that-must-fail:" + case["must_fail"], {"argv": case["argv"]})]
        if case.get("subprocess"):
            fails += subprocess_check(case["argv"], case["text"], td)
    return fails


def plan(tier):
    return {"shards": 16, "examples": 900 if tier == "quick" else 8000, "subprocess": 10 if tier == "quick" else 125, "wall_limit": 300 if tier == "quick" else 2400}


def run_shard(sh):
    examples = int(sh.params["examples"] * sh.params.get("scale", 1.0))
    doc_kw, op_kw, flags = base.params_from_quarantine(sh.quarantine)
    tmpdir = tempfile.mkdtemp(prefix="c16-")
    sub_budget = [sh.params["subprocess"]]
    try:

        @seed(sh.hseed)
        @settings(max_examples=examples, database=None, deadline=None, suppress_health_check=list(HealthCheck), phases=[Phase.generate])
        @given(st.integers(0, 2**48))
        def prop(n):
            if sh.over_budget():
                sh.skipped_budget += 1
                return
            sh.now(n)
            r = random.Random(n)
            kind, text = gen_input(r, n, doc_kw)
            argv, cmdcls = gen_command(r, text, op_kw, flags)
            if any(a == "" for a in argv[1:2]) and argv[0] != "test":
                pass
            case = {"argv": argv, "text": text, "judge_all": kind in ("canonical", "newlines"), "must_fail": cmdcls.split("!must-fail:")[1] if "!must-fail:" in cmdcls else None}
            nima.reset_state()
            fails, outcome = judge(argv, text, tmpdir, judge_all=kind in ("canonical", "newlines"))
            if "!must-fail:" in cmdcls and kind not in ("canonical", "newlines"):
                # the model's refusals are claimed for generated documents only (arbitrary programs meet open findings
                # of the round-trip family, e.g. comments inside attrpaths)
                cmdcls = cmdcls.split("!must-fail:")[0]
            if "!must-fail:" in cmdcls and outcome == "edit-ok":
                # the reference model of C05/C08 refuses this edit (missing key, path through a leaf, missing scope layer…):
                # "exit 0 only on success" — there is no success to report
                fails = fails + [("exit-zero-on-edit-that-must-fail:" + cmdcls.split("!must-fail:")[1], {"argv": argv})]
            if sub_budget[0] > 0 and r.random() < 0.1:
                sub_budget[0] -= 1
                case["subprocess"] = True
                fails = fails + subprocess_check(argv, text, tmpdir)
                sh.classes["subprocess"] += 1
            nontriv = text.endswith("\n") or outcome in ("edit-fails", "fail")
            sh.record(case, nontriv, ["input:" + kind, "cmd:" + cmdcls.split("@")[0], "outcome:" + outcome, f"final-nl:{len(text) - len(text.rstrip(chr(10)))}"])
            for k, d in fails:
                sh.fail(f"{k}|{argv[0]}|{kind}", case, d)

        prop()
    finally:
        import shutil

        shutil.rmtree(tmpdir, ignore_errors=True)
