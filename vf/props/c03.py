"""C03 — comments survive a round trip exactly once, in order and in place."""

from vf import cst, oracles
from vf.gen import trivia as T
from vf.props import rt_common as RT

ID = "C03"
LEVEL = "exploration"
RULE = (
    "Same program generator as C01 with the trivia vector biased to comments: every gap label x {line, block, doc} x "
    "{own-line, end-of-line, mid-line} x {single, multi-line}; each injected comment carries a unique tag. Oracle: same "
    "comments (kind + normalised wording) in the same order, and the number of barrier tokens (identifier, literal, keyword, "
    "operator; punctuation is not a barrier) before each comment is unchanged. Non-trivial = >=1 comment in a gap that is "
    "not at file level."
)
ASSUMPTIONS = [
    "tree-sitter-nix 0.1.0 comment nodes define what a comment is",
    "'indentation and delimiter padding' = per-line leading/trailing blanks and blanks next to the delimiters",
    "punctuation ; , = : @ . and brackets are not barriers (literal reading of the statement)",
]

_W = [1] * len(T.WS_CLASSES) + [6] * len(T.COMMENT_CLASSES)


def check(text, tree):
    status, out = RT.rebuild(text)
    if status == "refused":
        return "refused", [(out, {})]
    if status == "crash":
        return "skip:crash", []
    out_tree = cst.parse(out)
    fails = oracles.c03(tree, out_tree)
    if cst.errors(out_tree):
        # position oracle is not meaningful on an erroneous tree; presence/wording still is
        fails = [f for f in fails if f[0] != "moved"]
        if not fails:
            return "skip:invalid-output", []
    return "ok", [(k, dict(d, out=out[:300])) for k, d in fails]


def _nontrivial(ast, perts, status, text):
    return any(p.ncomments and not p.label[0] == "source_code" for p in perts)


CFG = RT.Config(ID, T.ALL_CLASSES, check, weights=_W, nontrivial=_nontrivial)


def plan(tier):
    return {"shards": 16, "examples": 2800 if tier == "quick" else 20000, "wall_limit": 240 if tier == "quick" else 2400}


def run_shard(sh):
    RT.run_shard(sh, CFG)


def replay(case):
    return RT.replay(case, CFG)
