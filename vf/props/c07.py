"""C07 — sources with syntax errors are passed through untouched and never edited."""

import random

from hypothesis import HealthCheck, Phase, given, seed, settings
from hypothesis import strategies as st

from vf import cst, guard, nima
from vf.gen import damage as D
from vf.gen import grammar as G
from vf.props.rt_common import innermost_frame

ID = "C07"
LEVEL = "exploration"
RULE = (
    "Three generators: (a) damage operators (delete / duplicate / insert / swap / replace a token, truncate at any byte, "
    "unbalance a delimiter) applied to programs of the C01 grammar, with random leading/trailing whitespace; (b) Hypothesis text "
    "over a Nix-token alphabet and arbitrary unicode; (c) the same damaged texts (plus empty and multi-expression texts) used as "
    "VALUE of a set on a valid document. Classification by tree-sitter's own has_error. Oracle for erroneous T: "
    "rebuild(parse(T)) == T byte for byte, CLI test prints Fail / returns 1, set_value and remove_value raise and return nothing; "
    "for an erroneous / empty / multi-expression VALUE set_value (at plain, nested, quoted and `@`-scoped paths) raises ValueError, the document still rebuilds to the same text, and the CLI prints nothing / does not exit 0. "
    "Non-trivial = erroneous text (or erroneous VALUE); distinct by SHA-1 of the text."
)
ASSUMPTIONS = ["tree-sitter-nix 0.1.0 root.has_error defines 'contains a syntax error'", "texts stay below 250 lines/columns (py-tree-sitter Point bug, see DESIGN)"]

_ALPHABET = ["{", "}", "(", ")", "[", "]", ";", "=", ",", ":", "@", "?", '"', "''", "${", " in ", "let ", " then ", " else ", "with ", "assert ", "inherit ", "rec ", "if ", ".", "...", "#", "/*", "*/", "\\", "'", "$", " ", "\n", "\t", "a", "b", "x", "1", "0.5", "./p", "<n>", "é", "==", "!", "-", "+", "++", "//", "->", " or ", "&&", "||", "true", "null"]
DOCS = ["{ a = 1; }", "{ pkgs }:\n{\n  a = 1;\n  b = { c = 2; };\n}\n", "let\n  x = 1;\nin\n{\n  a = x;\n}\n", "rec { a.b = 1; a.c = 2; }"]


def _exc_sig(e):
    return f"{type(e).__name__}@{innermost_frame(e)}"


def judge_erroneous(text):
    """Oracle for a text that tree-sitter reports as erroneous."""
    fails = []
    nima.reset_state()
    try:
        with guard.time_limit(10):
            src = nima.parse(text)
            out = src.rebuild()
    except guard.EvalTimeout:
        return [("timeout", {})]
    except Exception as e:  # noqa: BLE001
        return [("rebuild-raises:" + _exc_sig(e), {"msg": str(e)[:100]})]
    if out != text:
        i = next((k for k, (a, b) in enumerate(zip(out, text)) if a != b), min(len(out), len(text)))
        kind = "leading" if text[: len(text) - len(text.lstrip())] != out[: len(out) - len(out.lstrip())] else "trailing" if out.rstrip() == text.rstrip() else "inner"
        fails.append((f"not-passed-through:{kind}", {"at": i, "in": text[max(0, i - 20) : i + 20], "out": out[max(0, i - 20) : i + 20]}))
    # the same text read from a file / parsed with a source path must be passed through as well
    if "\r" not in text and "\x00" not in text:
        import os
        import tempfile

        fd, fpath = tempfile.mkstemp(prefix="c07-", suffix=".nix")
        try:
            with os.fdopen(fd, "w", encoding="utf-8", newline="") as fh:
                fh.write(text)
            for how, build in (("parse_file", lambda: nima.parse_file(fpath)), ("source_path", lambda: nima.parse(text, source_path=fpath))):
                try:
                    got = build().rebuild()
                except Exception as e:  # noqa: BLE001
                    fails.append((f"{how}-raises:" + _exc_sig(e), {"msg": str(e)[:100]}))
                    continue
                if got != text:
                    fails.append((f"not-passed-through:{how}", {"in": text[:60], "out": got[:60]}))
        finally:
            os.unlink(fpath)
    code, so, se, exc = nima.cli(["test"], text)
    if exc is not None or code != 1 or so != "Fail\n":
        fails.append(("cli-test-not-fail", {"code": code, "stdout": so[:50], "exc": repr(exc)}))
    for name, call in (("set", lambda s: nima.set_value(s, "a", "1")), ("set-scoped", lambda s: nima.set_value(s, "@a", "1")), ("rm", lambda s: nima.remove_value(s, "a")), ("rm-scoped", lambda s: nima.remove_value(s, "@a"))):
        try:
            res = call(nima.parse(text))
        except Exception:  # noqa: BLE001  (type is C08's business)
            continue
        fails.append((f"{name}-emits-text", {"out": str(res)[:120]}))
    for argv in (["set", "a", "1"], ["rm", "a"]):
        code, so, se, exc = nima.cli(argv, text)
        if so != "" or (exc is None and code == 0):
            fails.append((f"cli-{argv[0]}-emits-or-succeeds", {"code": code, "stdout": so[:80]}))
    return fails


VALUE_PATHS = ["a", "a", "new", "b.c", "x.y.z", "@x", "@new", "@@x", '"a"', "a.sub"]


def judge_value(doc, value, path="a"):
    """Oracle for a VALUE that is not exactly one well-formed expression."""
    fails = []
    src = nima.parse(doc)
    before = src.rebuild()
    try:
        res = nima.set_value(src, path, value)
    except ValueError:
        res = None
    except Exception as e:  # noqa: BLE001
        fails.append(("bad-value-wrong-exception:" + _exc_sig(e), {}))
        res = None
    else:
        fails.append(("bad-value-accepted", {"out": res[:160]}))
    after = src.rebuild()
    if after != before:
        fails.append(("bad-value-changed-document", {"before": before[:100], "after": after[:100]}))
    if "\x00" not in value and not value.startswith("-"):
        code, so, se, exc = nima.cli(["set", path, value], doc)
        if so != "" or (exc is None and code == 0):
            fails.append(("cli-bad-value-emits-or-succeeds", {"code": code, "stdout": so[:120]}))
    return fails


def value_is_bad(value: str) -> bool:
    t = cst.parse(value)
    if t.root.has_error:
        return True
    tops = cst.top_expressions(t)
    return len(tops) != 1


def check_case(case):
    kind = case["kind"]
    if kind == "text":
        return judge_erroneous(case["text"])
    return judge_value(case["doc"], case["value"], case.get("path", "a"))


def replay(case):
    if case["kind"] == "text":
        if not cst.parse(case["text"]).root.has_error or not cst.env_ok(case["text"]):
            return []
    elif not value_is_bad(case["value"]):
        return []
    return [(k, d) for k, d in check_case(case)]


def plan(tier):
    return {"shards": 16, "examples": 900 if tier == "quick" else 25000, "wall_limit": 240 if tier == "quick" else 2400}


def run_shard(sh):
    examples = int(sh.params["examples"] * sh.params.get("scale", 1.0))
    text_strategy = st.one_of(
        st.lists(st.sampled_from(_ALPHABET), min_size=1, max_size=25).map("".join),
        st.text(max_size=40),
        st.text(alphabet=st.sampled_from(list("{}()[];=\"'$\\ \n.a1#/*")), max_size=30),
    )

    @seed(sh.hseed)
    @settings(max_examples=examples, database=None, deadline=None, suppress_health_check=list(HealthCheck), phases=[Phase.generate])
    @given(st.integers(0, 2**48), st.sampled_from(["damage", "damage", "damage", "text", "value", "value"]), text_strategy)
    def prop(n, mode, raw):
        if sh.over_budget():
            sh.skipped_budget += 1
            return
        sh.now(n)
        r = random.Random(n)
        if mode == "text":
            text, op = raw, "rawtext"
        else:
            _ast, base, _b = G.program(n)
            if not cst.env_ok(base) or cst.parse(base).root.has_error:
                sh.notes["generator-invalid-or-big"] += 1
                return
            text, op = D.damage(r, base)
            if r.random() < 0.3:
                text, op2 = D.damage(r, text)
                op = op + "+" + op2
        if "\x00" in text and mode == "value":
            text = text.replace("\x00", "")
        if not cst.env_ok(text):
            sh.notes["env-size-limit"] += 1
            return
        if mode == "value":
            if r.random() < 0.15:
                text = r.choice(["", " ", "\n", "1 2", "a b;", "# only a comment", "{ } { }", "1\n2", ";"])
                op = "fixed-bad-value"
            if not value_is_bad(text):
                # `1 2` is one apply expression etc.: not a bad value -> outside this clause
                sh.record({"kind": "value", "value": text}, False, ["value:well-formed"])
                return
            doc = r.choice(DOCS)
            path = r.choice(VALUE_PATHS)
            case = {"kind": "value", "doc": doc, "value": text, "path": path}
            fails = judge_value(doc, text, path)
            pcls = "scoped" if path.startswith("@") else "plain"
            sh.record(case, True, ["mode:value", "op:" + op, "path:" + pcls])
            for k, d in fails:
                sh.fail(f"{k}|value:{pcls}|{op.split('+')[0]}", case, d)
            return
        tree = cst.parse(text)
        if not tree.root.has_error:
            sh.record({"kind": "text", "text": text}, False, ["still-valid", "op:" + op])
            return
        case = {"kind": "text", "text": text}
        fails = judge_erroneous(text)
        lead = text[:1].isspace() if text else False
        trail = text[-1:].isspace() if text else False
        sh.record(case, True, ["mode:" + mode, "op:" + op, f"lead-ws:{lead}", f"trail-ws:{trail}"])
        for k, d in fails:
            sh.fail(f"{k}|{mode}", case, d)

    prop()
