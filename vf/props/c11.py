"""C11 — editing through a reference updates exactly the defining binding."""

import copy
import random

from hypothesis import HealthCheck, Phase, given, seed, settings
from hypothesis import strategies as st

from vf import cst, guard, nima
from vf.model import scope as S
from vf.props.c10 import gen_kw, resolve_probe, root_of
from vf.props.rt_common import innermost_frame

ID = "C11"
LEVEL = "exploration"
RULE = (
    "Documents from the C10 scoping grammar (let layers, with environments, rec/plain nested sets, inherit sources, reference chains, shadowing at "
    "several levels). For every binding whose value is a reference: `set PATH <fresh int>` through the CLI helper and `node.value = <int>` through the "
    "API, each on a fresh parse. Oracle: the independent resolver designates the defining binding at the end of the chain; the expected document is the "
    "input with exactly that binding's value replaced (or, when the name is bound nowhere in the document, the binding at PATH itself overwritten); the "
    "output's token sequence must equal the expected document's, so nothing else changes and the reference stays in place. Sequences of 1-3 such edits "
    "are applied one after another. Non-trivial = shadowing present or chain length >= 2."
    ' Every twelfth case is an alias-call document (`let v = 1; args = { x = v; }; in let v = 2; in f args`) edited through the CLI helper or the mapping API.'
)
ASSUMPTIONS = ["names bound somewhere in the document but not in scope of the reference, cycles, inherited names as PATH and function formals are left undefined by the statement: not judged"]


def all_binding_names(doc):
    names = set()

    def walk(bs):
        for b in bs:
            names.add(b.name)
            if b.kind == "set":
                walk(b.value.bindings)

    for w in doc.wrappers:
        walk(w.bindings)
    walk(doc.target.bindings)
    return names


def find_uid(doc, uid):
    def walk(bs):
        for b in bs:
            if b.uid == uid:
                return b
            if b.kind == "set":
                r = walk(b.value.bindings)
                if r is not None:
                    return r
        return None

    for w in doc.wrappers:
        r = walk(w.bindings)
        if r is not None:
            return r
    return walk(doc.target.bindings)


def expected_after(doc, b, chain, new_value):
    """Returns (expected ScopeDoc, feature tags) or None when the situation is unspecified."""
    res = S.Resolver(doc)
    exp = res.expected(b, chain)
    d2 = copy.deepcopy(doc)
    tags = []
    if exp[0] == "value" or exp[0] == "set":
        try:
            _val, defn = res._follow(b, chain, set(), 0)
        except (S.Unbound, S.Cycle):
            return None
        if defn.uid <= 0:
            return None
        tgt = find_uid(d2, defn.uid)
        tgt.kind, tgt.value = "int", new_value
        # chain length / shadowing
        name = b.value
        levels = sum(1 for fr in chain for x in fr.bindings if x.name == name)
        if levels >= 2:
            tags.append("shadowed")
        hops = 0
        cur = b
        tags.append("defn:" + ("with" if any(fr.kind == "with" and any(x.uid == defn.uid for x in fr.bindings) for fr in chain) else "lexical"))
        return d2, tags + ["exp:" + exp[0]]
    if exp[0] == "unbound":
        if b.value in all_binding_names(doc):
            return None  # bound somewhere but not in scope: undefined
        tgt = find_uid(d2, b.uid)
        tgt.kind, tgt.value = "int", new_value
        return d2, ["exp:unbound-overwrite"]
    return None


def _apply_plain(cur_doc, step):
    """Model side of a plain edit of the rec target set: ('add', name, int) / ('rm', name)."""
    d2 = copy.deepcopy(cur_doc)
    if step[0] == "add":
        uid = max([0] + [b.uid for w in d2.wrappers for b in w.bindings] + [b.uid for b in d2.target.bindings]) + 1000 + step[2]
        d2.target.bindings.append(S.B(step[1], "int", step[2], uid))
    else:
        d2.target.bindings = [b for b in d2.target.bindings if b.name != step[1]]
    return d2


def judge(doc, edits, via, same_object=False):
    """edits: [(keys tuple, new int)] (plus ('add', name, int) / ('rm', name) steps) applied in sequence,
    on re-parsed text or on one document object."""
    fails = []
    cur_doc = doc
    text = S.render(doc)
    tags_all = []
    nima.reset_state()
    shared = nima.parse(text) if same_object else None
    for step in edits:
        if step[0] in ("add", "rm"):
            try:
                src = shared if same_object else nima.parse(text)
                out = nima.set_value(src, step[1], str(step[2])) if step[0] == "add" else nima.remove_value(src, step[1])
            except Exception:  # noqa: BLE001
                break
            cur_doc = _apply_plain(cur_doc, step)
            text = out
            tags_all.append("plain-" + step[0])
            continue
        keys, new_value = step
        res = S.Resolver(cur_doc)
        probe = next(((k, b, c) for k, b, c in res.probes() if k == keys and b.kind == "ref"), None)
        if probe is None:
            break
        _k, b, chain = probe
        ea = expected_after(cur_doc, b, chain, new_value)
        if ea is None:
            tags_all.append("unspecified")
            break
        d2, tags = ea
        tags_all.extend(tags)
        if not same_object:
            nima.reset_state()  # never between steps on one object: stale contexts are part of what is tested
        try:
            with guard.time_limit(10):
                src = shared if same_object else nima.parse(text)
                if via == "cli":
                    out = nima.set_value(src, ".".join(keys), str(new_value))
                else:
                    root = root_of(src, cur_doc)
                    obj = root
                    for k in keys:
                        obj = obj[k]
                    obj.value = new_value
                    out = src.rebuild()
        except nima.ResolutionError as e:
            tags_all.append("resolution-error")
            if via == "cli":
                fails.append((f"cli-set-raises-ResolutionError|{'+'.join(tags)}", {"text": text[:500], "keys": list(keys), "msg": str(e)[:80]}))
            break
        except Exception as e:  # noqa: BLE001
            fails.append((f"raises:{type(e).__name__}@{innermost_frame(e)}|{via}|{'+'.join(tags)}", {"text": text[:500], "keys": list(keys)}))
            break
        want = S.render(d2)
        if cst.errors(cst.parse(out)):
            fails.append((f"invalid-output|{via}", {"text": text[:400], "out": out[:400]}))
            break
        if cst.norm_token_keys(out) != cst.norm_token_keys(want):
            # classify: which binding changed instead?
            kind = "wrong-binding-updated"
            if cst.norm_token_keys(out) == cst.norm_token_keys(text):
                kind = "no-change"
            else:
                # reference replaced in place?
                d3 = copy.deepcopy(cur_doc)
                t3 = find_uid(d3, b.uid)
                t3.kind, t3.value = "int", new_value
                if cst.norm_token_keys(out) == cst.norm_token_keys(S.render(d3)):
                    kind = "reference-overwritten-in-place"
            fails.append((f"{kind}|{via}|{'+'.join(tags)}", {"text": text[:500], "keys": list(keys), "new": new_value, "want": want[:500], "out": out[:500]}))
            break
        cur_doc = d2
        text = out
    return fails, tags_all


def gen_edits(r, doc):
    res = S.Resolver(doc)
    refs = [k for k, b, c in res.probes() if b.kind == "ref"]
    if not refs:
        return []
    edits = []
    by_key = {k: b for k, b, c in res.probes() if b.kind == "ref"}
    for i in range(r.randint(1, 3)):
        keys = r.choice(refs)
        edits.append((keys, 900000 + i))
        nm = by_key[keys].value
        if doc.target.rec and len(keys) == 1 and r.random() < 0.5:
            # directed history: rebind / unbind the referenced name in the rec set, then write through the same reference again
            cur = [b for b in doc.target.bindings if b.name == nm]
            removed = any(e[0] == "rm" and e[1] == nm for e in edits)
            added = any(e[0] == "add" and e[1] == nm for e in edits)
            if not cur and not added:
                edits.append(("add", nm, 800000 + i))
                edits.append((keys, 910000 + i))
                continue
            if cur and cur[0].kind == "int" and not removed and not added:
                edits.append(("rm", nm))
                edits.append((keys, 910000 + i))
                continue
        if doc.target.rec and r.random() < 0.4:
            bound = [b.name for b in doc.target.bindings if b.kind == "int" and b.name in S.POOL and not any(e[0] == "rm" and e[1] == b.name for e in edits)]
            free = [n for n in S.POOL if all(b.name != n for b in doc.target.bindings) and not any(e[0] == "add" and e[1] == n for e in edits)]
            if bound and r.random() < 0.5:
                edits.append(("rm", r.choice(bound)))
            elif free:
                edits.append(("add", r.choice(free), 800000 + i))
    return edits


def aliascall_case(r):
    """The edited set is the argument of a call, given by a name that an outer let binds; an inner let re-binds the name the
    set's value refers to.  The reference `x = v` belongs to the layer where the set is written."""
    b = r.randrange(1, 9) * 100
    v1, v2, new = b + 1, b + 2, b + 9
    call = r.choice(["f args", "f a args", "mk args", "(f) args", "lib.id args"])
    outer = [f"  v = {v1};", "  args = {", "    x = v;", "    y = 1;", "  };"]
    if r.random() < 0.5:
        outer = outer[1:] + outer[:1]
    lines = ["let"] + outer + ["in"]
    for i in range(r.choice([1, 1, 2])):
        lines += ["let", f"  v = {v2 + 10 * i};"] + (["  unrelated = v;"] if r.random() < 0.3 else []) + ["in"]
    lines.append(call)
    text = "\n".join(lines) + "\n"
    want = text.replace(f"  v = {v1};", f"  v = {new};")
    return {"raw": {"text": text, "path": "x", "value": str(new), "want": want, "via": r.choice(["api", "api", "cli"]), "prime": r.random() < 0.3}}


def judge_raw(raw):
    nima.reset_state()
    try:
        src = nima.parse(raw["text"])
        if raw.get("prime"):
            try:
                src[raw["path"]].value  # an earlier lookup on the same object
            except Exception:  # noqa: BLE001
                pass
        if raw.get("via", "cli") == "cli":
            out = nima.set_value(src, raw["path"], raw["value"])
        else:
            src[raw["path"]].value = int(raw["value"])
            out = src.rebuild()
    except nima.ResolutionError:
        return []  # an explicit failure is allowed by the statement
    except Exception as e:  # noqa: BLE001
        return [(f"raises:{type(e).__name__}|{raw.get('via', 'cli')}|raw", {"text": raw["text"][:300]})]
    if cst.norm_token_keys(out) != cst.norm_token_keys(raw["want"]):
        return [(f"wrong-binding-updated|{raw.get('via', 'cli')}|raw", {"out": out[:300], "want": raw["want"][:300]})]
    return []



def replay(case):
    if "raw" in case:
        if "via" in case["raw"]:
            return judge_raw(case["raw"])
        raw = case["raw"]
        nima.reset_state()
        try:
            out = nima.set_value(nima.parse(raw["text"]), raw["path"], raw["value"])
        except Exception as e:  # noqa: BLE001
            return [(f"raises:{type(e).__name__}", {})]
        if cst.norm_token_keys(out) != cst.norm_token_keys(raw["want"]):
            return [("wrong-binding-updated|cli|raw", {"out": out[:300], "want": raw["want"][:300]})]
        return []
    g = S.Gen(case["seed"], **case.get("kw", {}))
    d = g.doc()
    edits = [tuple(e) if e[0] in ("add", "rm") else (tuple(e[0]), e[1]) for e in case["edits"]]
    fl, _ = judge(d, edits, case["via"], case.get("same_object", False))
    return fl


def plan(tier):
    return {"shards": 16, "examples": 400 if tier == "quick" else 10000, "wall_limit": 300 if tier == "quick" else 2400}


def run_shard(sh):
    examples = int(sh.params["examples"] * sh.params.get("scale", 1.0))
    kw = dict(gen_kw(sh.quarantine), applied=False)

    @seed(sh.hseed)
    @settings(max_examples=examples, database=None, deadline=None, suppress_health_check=list(HealthCheck), phases=[Phase.generate])
    @given(st.integers(0, 2**48))
    def prop(n):
        if sh.over_budget():
            sh.skipped_budget += 1
            return
        sh.now(n)
        r = random.Random(n)
        if n % 12 == 0:
            case = aliascall_case(r)
            fl = judge_raw(case["raw"])
            sh.record(case, True, ["alias-call", "via:" + case["raw"]["via"]])
            for k, dd in fl:
                sh.fail(k + "|alias-call", case, dd)
            return
        g = S.Gen(n, **kw)
        d = g.doc()
        edits = gen_edits(r, d)
        if not edits:
            return
        via = r.choice(["cli", "cli", "api"])
        same_object = via == "cli" and r.random() < 0.5
        fails, tags = judge(d, edits, via, same_object)
        case = {"seed": n, "kw": kw, "edits": [list(e) if e[0] in ("add", "rm") else [list(e[0]), e[1]] for e in edits], "via": via, "same_object": same_object, "text": S.render(d)}
        nontriv = "shadowed" in tags or len(edits) >= 2
        sh.record(case, nontriv and "unspecified" not in tags[:1], ["via:" + via, f"edits:{len(edits)}", "same-object" if same_object else "reparse"] + tags)
        for k, dd in fails:
            # minimise: single edit if it fails alone
            for e in edits:
                if e[0] in ("add", "rm"):
                    continue
                fl1, _ = judge(d, [e], via)
                if any(k1 == k for k1, _ in fl1):
                    case = dict(case, edits=[[list(e[0]), e[1]]], same_object=False)
                    break
            sh.fail(k + ("|history" if case.get("same_object") and len(case["edits"]) > 1 else ""), case, dd)

    prop()
