"""Shared machinery of the round-trip properties C01, C03, C06, C18.

case (plain data) = {"text": input text, "base": un-perturbed text, "perts": [...], "seed": n}
"""

from __future__ import annotations

import random
import re
import traceback

from hypothesis import HealthCheck, Phase, given, seed, settings
from hypothesis import strategies as st

from vf import cst, guard, minimise, nima, oracles

EVAL_TIMEOUT_S = 10
from vf.gen import grammar as G
from vf.gen import trivia as T


class Config:
    def __init__(self, pid, classes, check, weights=None, include_uri=False, allow_string_interp=True, nontrivial=None, allow_attrpath=True):
        self.pid = pid
        self.classes = classes
        self.check = check  # check(in_text, in_tree) -> ("ok"|"refused"|"skip:<why>", fails)
        self.weights = weights
        self.include_uri = include_uri
        self.allow_string_interp = allow_string_interp
        self.allow_attrpath = allow_attrpath
        self.nontrivial = nontrivial


def innermost_frame(exc) -> str:
    tb = traceback.extract_tb(exc.__traceback__)
    for fr in reversed(tb):
        if "nix_manipulator" in fr.filename:
            return f"{fr.filename.split('nix_manipulator/')[-1]}:{fr.name}"
    return "outside"


def rebuild(text):
    """('ok', out) | ('refused', msg) | ('crash', sig)"""
    if not cst.env_ok(text):
        return "refused", "env-limit: >=250 lines or columns (py-tree-sitter Point bug)"
    nima.reset_state()
    try:
        with guard.time_limit(EVAL_TIMEOUT_S):
            return "ok", nima.rt(text)
    except guard.EvalTimeout:
        return "refused", "timeout: evaluation exceeded %ss (judged by C20 only)" % EVAL_TIMEOUT_S
    except ValueError as e:
        return "refused", f"{type(e).__name__}: {str(e)[:80]}"
    except RecursionError as e:
        return "crash", f"RecursionError@{innermost_frame(e)}"
    except Exception as e:  # noqa: BLE001
        return "crash", f"{type(e).__name__}@{innermost_frame(e)}"


def make_blocked(quarantine):
    pats = []
    for q in quarantine or []:
        if "label" in q:
            pats.append((re.compile(q["label"]), set(q.get("classes", [])) or None, set(q.get("families", [])) or None))

    def blocked(label, cls):
        for rx, classes, fams in pats:
            if rx.fullmatch(label):
                if classes is None and fams is None:
                    return True
                if classes is not None and cls in classes:
                    return True
                if fams is not None and T.FAMILY.get(cls) in fams:
                    return True
        return False

    return blocked


def _feature_sig(perts):
    return "+".join(sorted({p.feature() for p in perts})) if perts else "base"


def _ast_shape(ast) -> str:
    return ",".join(sorted(G.productions(ast)))


TINY_BASES = ["{ }", "[ { } ]", "[ { } { } ]", "{ a = { }; }", "x: { }", "[ [ ] ]", "{ a = [ ]; }", "f { }", "({ })", "[ { } 1 ]", "{ a = { }; b = 1; }", "rec { }", "[ rec { } ]", "let a = { }; in a", "{ a = [ { } ]; }", "with { }; [ ]", "{ inherit ({ }) a; }", "a.b or c", "{ x = a.b or 1; }", "a.b.c or { }", "x: a.b or x", "{ a, b ? 1, ... }: a", "a ++ b ++ [ ]", "if a then { } else [ ]", "{ a = let b = 1; in b; }", "[ (let b = 1; in b) ]", "{ a = { c = let b = 1; in b; }; }", "{ a = with b; c; }", "{ a = assert b; c; }", "{ a = x: y; }"]


def run_shard(sh, cfg: Config):
    examples = int(sh.params["examples"] * sh.params.get("scale", 1.0))
    one_per = any(q.get("flags", {}).get("one_comment_per_construct") for q in (sh.quarantine or []))
    empty_let = not any(q.get("gen", {}).get("empty_let") is False for q in (sh.quarantine or []))
    merge_pairs = not any(q.get("gen", {}).get("merge_pairs") is False for q in (sh.quarantine or []))
    injector = T.Injector(cfg.classes, blocked=make_blocked(sh.quarantine), allow_string_interp=cfg.allow_string_interp, weights=cfg.weights, allow_attrpath=cfg.allow_attrpath, one_comment_per_construct=one_per)

    def kinds_of(fails):
        return {k for k, _ in fails}

    def evaluate_text(text):
        tree = cst.parse(text)
        return cfg.check(text, tree)

    @seed(sh.hseed)
    @settings(
        max_examples=examples,
        database=None,
        deadline=None,
        derandomize=False,
        report_multiple_bugs=False,
        suppress_health_check=list(HealthCheck),
        phases=[Phase.generate],
    )
    @given(st.integers(0, 2**48))
    def prop(n):
        if sh.over_budget():
            sh.skipped_budget += 1
            return
        sh.now(n)
        ast, base, broken = G.program(n, include_uri=cfg.include_uri, empty_let=empty_let, merge_pairs=merge_pairs)
        r = random.Random(n ^ 0xA5A5A5)
        tiny = n % 8 == 0
        if tiny:
            # hand-sized programs with trivia in every gap at once: empty containers inside containers, at the end of a file
            ast, base, broken = ("id", "tiny"), r.choice(TINY_BASES), False
        if not cst.env_ok(base):
            sh.notes["env-size-limit"] += 1
            return
        base_tree = cst.parse(base)
        if base_tree.root.has_error:
            sh.notes["generator-invalid"] += 1
            return
        text, perts, gaps, _bt, dropped = T.inject(r, base, injector, mode=("all" if tiny and r.random() < 0.7 else None), tree=base_tree)
        if dropped:
            sh.notes["unsound-perturbation-dropped"] += dropped
        if not cst.env_ok(text):
            sh.notes["env-size-limit"] += 1
            text, perts = base, []
        in_tree = cst.parse(text)
        status, fails = cfg.check(text, in_tree)
        case = {"text": text, "seed": n}
        classes = [f"prod:{k}" for k in G.productions(ast)] + [f"gap:{p.feature()}" for p in perts] + [f"cls:{p.cls}" for p in perts]
        classes.append("layout:broken" if broken else "layout:flat")
        classes.append(f"perts:{min(len(perts), 4)}{'+' if len(perts) > 4 else ''}")
        if status.startswith("skip"):
            sh.notes[status] += 1
        nontriv = bool(perts) or G.depth(ast) >= 3
        if cfg.nontrivial is not None:
            nontriv = cfg.nontrivial(ast, perts, status, text)
        sh.record(case, nontriv and status == "ok", classes, refused=(status == "refused"))
        if status == "refused":
            sh.notes["refused:" + fails[0][0][:60] if fails else "refused"] += 1
            return
        if not fails:
            return
        # ---- failure: localise to a minimal perturbation set, then bucket
        for kind in sorted(kinds_of(fails)):
            detail = next(d for k, d in fails if k == kind)

            def fails_kind(t):
                st_, fl = evaluate_text(t)
                return kind in kinds_of(fl)

            min_perts = list(perts)
            min_text = text
            if perts:
                if fails_kind(base):
                    min_perts = []
                    min_text = base
                else:
                    single = None
                    for p in perts:
                        t1 = T.apply(base, gaps, [p])
                        if fails_kind(t1):
                            single = p
                            min_text = t1
                            break
                    if single is not None:
                        min_perts = [single]
                    else:
                        min_perts = minimise.ddmin_list(perts, lambda ps: fails_kind(T.apply(base, gaps, ps)), max_calls=150)
                        min_text = T.apply(base, gaps, min_perts)
            if not min_perts:
                # base program fails on its own: minimise the AST, signature = productions of the minimum
                def ast_fails(a):
                    t = G.render(a, broken)
                    if cst.parse(t).root.has_error:
                        return False
                    return fails_kind(t)

                small = minimise.shrink_ast(ast, ast_fails, max_calls=250)
                min_text = G.render(small, broken)
                sig = f"{kind}|base|{'broken' if broken else 'flat'}|{_ast_shape(small)}"
            else:
                sig = f"{kind}|{_feature_sig(min_perts)}"
                # shrink the surrounding program while the same single-gap feature still fails
                if len(min_perts) == 1:
                    p0 = min_perts[0]

                    def ast_fails2(a):
                        t = G.render(a, broken)
                        tr = cst.parse(t)
                        if tr.root.has_error:
                            return False
                        gs = cst.code_gaps(tr)
                        for g in gs:
                            if g.label == p0.label:
                                pp = T.Perturbation(g.index, g.label, p0.cls, p0.text, p0.ncomments)
                                t2 = T.apply(t, gs, [pp])
                                if T.sound(tr, t2, p0.ncomments) is None:
                                    continue
                                if fails_kind(t2):
                                    ast_fails2.last = t2
                                    return True
                        return False

                    ast_fails2.last = None
                    minimise.shrink_ast(ast, ast_fails2, max_calls=120)
                    if ast_fails2.last is not None:
                        min_text = ast_fails2.last
            st2, fl2 = evaluate_text(min_text)
            d2 = next((d for k, d in fl2 if k == kind), detail)
            sh.fail(sig, {"text": min_text, "seed": n, "perts": [p.to_json() for p in min_perts]}, d2)

    prop()
    sh.excluded += injector.excluded


def replay(case, cfg: Config):
    text = case["text"]
    tree = cst.parse(text)
    status, fails = cfg.check(text, tree)
    if status == "refused":
        return []
    out = []
    perts = case.get("perts") or []
    feat = "+".join(sorted({"/".join(p["label"]) + "~" + p["cls"] for p in perts})) if perts else "base"
    for kind, detail in fails:
        out.append((f"{kind}|{feat}", detail))
    return out
