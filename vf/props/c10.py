"""C10 — identifier resolution follows Nix lexical scoping or fails explicitly."""

import gc
import random

from hypothesis import HealthCheck, Phase, given, seed, settings
from hypothesis import strategies as st

from vf import cst, nima
from vf.model import scope as S
from vf.props.rt_common import innermost_frame

ID = "C10"
LEVEL = "exploration"
RULE = (
    "Programs from a scoping grammar: 0-4 wrappers (let layers and `with {…};` environments in any order) around a plain or rec target set with nested "
    "plain/rec sets, `inherit x;`, `inherit (src) x;`, references and reference chains/cycles, one pool of 4 names bound at several levels or nowhere, "
    "unique integers as values; plus directly applied functions with formals/defaults (wired with attach_resolution_context as the repository's tests do). "
    "Every identifier-valued binding is reached through the document mapping and resolved. Oracle = independent lexical resolver (vf/model/scope.py): a "
    "returned value must be the integer of the binding the model designates; model Unbound/Cycle must raise ResolutionError (bounded by a 10 s guard); an "
    "explicit ResolutionError where the model resolves is allowed and counted. History part: several documents with disjoint integer ranges are created, "
    "resolved, edited and dropped in random order with gc.collect() in between; a value must come from the document's own range, unattached identifiers "
    "must raise, and the context registry must not keep dead entries. Alias-body part: documents whose body is a *name* (or `mk name`) bound to set literals by 1-4 "
    "let / with wrappers (with aliases, cycles and shadowing), read through source[\"k\"] twice: the value must be the one Nix designates, or an explicit failure, and "
    "the second access must agree with the first. Non-trivial = the name is bound at >=2 levels, or reached through inherit/with/a chain >=2."
    ' Step scripts (`tworoute`, `withvalue`): one let-bound set reached as `with` environment, as value, after a CLI write or an earlier read; a `with <name>; { … }` binding value inside a (rec) set that gains or loses a binding between two lookups; two-step probes doc[x].value[k].value.'
)
ASSUMPTIONS = ["references to a sibling of a non-rec set and other situations the statement leaves undefined are not generated", "function-parameter resolution is reached through the internal wiring the repository's own tests use"]

from nix_manipulator.expressions.identifier import Identifier  # noqa: E402
from nix_manipulator.expressions.parenthesis import Parenthesis  # noqa: E402
from nix_manipulator.resolution import _CONTEXTS, attach_resolution_context  # noqa: E402
from vf import guard  # noqa: E402


def root_of(src, doc):
    if doc.applied:
        call = src.expr
        fn = call.name
        while isinstance(fn, Parenthesis):
            fn = fn.value
        body = fn.output
        attach_resolution_context(body, owner=call)
        return body
    return src


def resolve_probe(root, keys):
    """('value', int) | ('value-other', repr) | ('resolution-error', msg) | ('exc', sig)"""
    try:
        with guard.time_limit(10):
            obj = root
            for k in keys:
                obj = obj[k]
            if not isinstance(obj, Identifier):
                return ("not-identifier", type(obj).__name__)
            val = obj.value
            v = getattr(val, "value", None)
            if isinstance(v, int) and not isinstance(v, bool):
                return ("value", v)
            return ("value-other", type(val).__name__)
    except nima.ResolutionError as e:
        return ("resolution-error", str(e)[:80])
    except guard.EvalTimeout:
        return ("timeout", "")
    except Exception as e:  # noqa: BLE001
        return ("exc", f"{type(e).__name__}@{innermost_frame(e)}")


def features(doc, b, chain, exp):
    fs = []
    name = b.value if b.kind == "ref" else b.name
    levels = sum(1 for fr in chain for x in fr.bindings if x.name == name)
    if levels >= 2:
        fs.append("shadowed")
    if any(fr.kind == "with" for fr in chain):
        fs.append("with-present")
    if b.kind != "ref":
        fs.append(b.kind)
    if doc.applied:
        fs.append("applied")
    if any(fr.kind == "set" and fr.rec for fr in chain):
        fs.append("rec")
    fs.append("exp:" + exp[0])
    return fs


def judge_doc(doc, text):
    """Returns (failures, per-probe records)."""
    nima.reset_state()
    fails = []
    recs = []
    try:
        src = nima.parse(text)
        root = root_of(src, doc)
    except nima.ResolutionError:
        return [], [("setup-resolution-error", [])]
    except Exception as e:  # noqa: BLE001
        return [(f"setup-raises:{type(e).__name__}@{innermost_frame(e)}", {"text": text[:300]})], []
    res = S.Resolver(doc)
    for keys, b, chain in res.probes():
        exp = res.expected(b, chain)
        got = resolve_probe(root, keys)
        fs = features(doc, b, chain, exp)
        recs.append((got[0], fs))
        sig_feat = "+".join(f for f in fs if not f.startswith("exp:"))
        d = {"keys": list(keys), "expected": [exp[0]] + ([exp[1]] if exp[0] == "value" else []), "got": list(got), "text": text[:500]}
        if got[0] == "exc":
            fails.append((f"internal-error:{got[1]}|{sig_feat}", d))
        elif got[0] == "timeout":
            fails.append((f"unbounded-resolution|{exp[0]}|{sig_feat}", d))
        elif exp[0] == "value":
            if got[0] == "value" and got[1] != exp[1]:
                fails.append((f"wrong-binding|{sig_feat}", d))
            elif got[0] in ("value-other", "not-identifier"):
                fails.append((f"wrong-kind:{got[1]}|{sig_feat}", d))
        elif exp[0] in ("unbound", "cycle"):
            if got[0] in ("value", "value-other"):
                fails.append((f"resolved-{exp[0]}-name|{sig_feat}", d))
        elif exp[0] == "set":
            if got[0] == "value":
                fails.append((f"wrong-kind:int-for-set|{sig_feat}", d))
    return fails, recs


def history_check(r, sh, kw):
    """Several documents alive at once, resolved / dropped in random order."""
    docs = []
    fails = []
    for i in range(r.randint(2, 4)):
        g = S.Gen(r.randrange(2**40), base=(i + 1) * 100000, **kw)
        d = g.doc()
        docs.append([d, S.render(d), None, None])
    order = list(range(len(docs)))
    for step in range(r.randint(3, 8)):
        i = r.choice(order)
        d, text, src, root = docs[i]
        act = r.choice(["parse", "resolve", "resolve", "drop", "gc", "move", "move", "edit", "edit"])
        if act == "parse" or src is None:
            try:
                src = nima.parse(text)
                root = root_of(src, d)
                docs[i][2], docs[i][3] = src, root
            except Exception:  # noqa: BLE001
                docs[i][2] = docs[i][3] = None
                continue
        if act == "resolve" and root is not None:
            res = S.Resolver(d)
            lo, hi = (i + 1) * 100000, (i + 2) * 100000
            for keys, b, chain in res.probes():
                got = resolve_probe(root, keys)
                exp = res.expected(b, chain)
                if got[0] == "value":
                    if not (lo < got[1] < hi):
                        fails.append(("value-from-another-document", {"doc": text[:300], "got": got[1], "range": [lo, hi]}))
                    elif exp[0] == "value" and got[1] != exp[1]:
                        fails.append(("wrong-binding|history", {"doc": text[:300], "keys": list(keys), "got": got[1], "expected": exp[1]}))
                    elif exp[0] in ("unbound", "cycle"):
                        fails.append((f"resolved-{exp[0]}-name|history", {"doc": text[:300], "keys": list(keys), "got": got[1]}))
        elif act == "move" and root is not None and len(docs) > 1:
            # move an identifier node that was reached (and context-attached) in document i over an existing
            # key of another document j: afterwards it must resolve in j's scopes, never in i's
            j = r.choice([x for x in order if x != i])
            dj, tj = docs[j][0], docs[j][1]
            if dj.applied or d.applied:
                continue
            res_i = S.Resolver(d)
            tops = [(keys, b) for keys, b, _c in res_i.probes() if len(keys) == 1 and b.kind == "ref"]
            keys_j = [b.name for b in dj.target.bindings if b.kind in ("ref", "int")]
            if not tops or not keys_j:
                continue
            keys, b = r.choice(tops)
            try:
                srcj = nima.parse(tj)
                node = root[keys[0]]
                try:
                    node.value  # prime the context in document i
                except nima.ResolutionError:
                    pass
                kj = r.choice(keys_j)
                srcj[kj] = node
                got = resolve_probe(srcj, (kj,))
            except Exception as e:  # noqa: BLE001
                continue
            lo, hi = (j + 1) * 100000, (j + 2) * 100000
            if got[0] == "value" and not (lo < got[1] < hi):
                fails.append(("moved-node-resolves-in-old-document", {"from": text[:200], "to": tj[:200], "name": b.value, "got": got[1], "range": [lo, hi]}))
            # the node object is now shared by both trees: discard both objects (documents are re-parsed on demand)
            docs[j][2] = docs[j][3] = None
            docs[i][2] = docs[i][3] = None
            src = root = None
        elif act == "edit" and root is not None and not d.applied and d.wrappers and all(w.kind == "let" for w in d.wrappers) and all(b.kind in ("int", "ref", "set") for b in d.wrappers[-1].bindings):
            # resolve everything (contexts get attached), then remove the innermost let layer binding by binding through
            # the CLI helper on the same object: afterwards names resolve as in the document without that layer
            import copy as _copy

            for _round in range(r.choice([1, 4, 4])):
                if not (d.wrappers and all(w.kind == "let" for w in d.wrappers) and all(b.kind in ("int", "ref", "set") for b in d.wrappers[-1].bindings)):
                    break
                res0 = S.Resolver(d)
                if _round == 0 or r.random() < 0.4:
                    for keys, b, chain in res0.probes():
                        resolve_probe(root, keys)
                try:
                    for b in list(d.wrappers[-1].bindings):
                        nima.remove_value(src, "@" + b.name)
                except Exception:  # noqa: BLE001 - refusals are not this property's business
                    docs[i][2] = docs[i][3] = None
                    src = root = None
                    break
                d2 = _copy.deepcopy(d)
                d2.wrappers = d2.wrappers[:-1]
                docs[i][0], docs[i][1] = d2, src.rebuild()
                d = d2
                res2 = S.Resolver(d2)
                lo, hi = (i + 1) * 100000, (i + 2) * 100000
                if d2.wrappers and _round < 3 and r.random() < 0.5:
                    continue  # several layers go before anything is looked up again
                for keys, b, chain in res2.probes():
                    got = resolve_probe(src, keys)
                    exp = res2.expected(b, chain)
                    if got[0] == "value" and exp[0] == "value" and got[1] != exp[1]:
                        fails.append(("wrong-binding-after-layer-removed|history", {"doc": docs[i][1][:300], "keys": list(keys), "got": got[1], "expected": exp[1]}))
                    elif got[0] in ("value", "value-other") and exp[0] in ("unbound", "cycle"):
                        fails.append((f"resolved-{exp[0]}-name-after-layer-removed|history", {"doc": docs[i][1][:300], "keys": list(keys), "got": list(got)}))
        elif act == "drop":
            docs[i][2] = docs[i][3] = None
            src = root = None
        elif act == "gc":
            gc.collect()
    # unattached identifier must raise
    try:
        Identifier(name=r.choice(S.POOL)).value
        fails.append(("unattached-identifier-resolved", {}))
    except nima.ResolutionError:
        pass
    except Exception as e:  # noqa: BLE001
        fails.append((f"unattached-identifier-raises:{type(e).__name__}", {}))
    for dd in docs:
        dd[2] = dd[3] = None
    del src, root
    gc.collect()
    dead = [k for k, (ref, _ctx) in list(_CONTEXTS.items()) if ref() is None]
    if dead:
        fails.append(("context-registry-keeps-dead-entries", {"count": len(dead)}))
    return fails


ALIAS_NAMES = ["t", "u"]


def alias_case(r):
    """A document whose body is a *name* (or a call on a name) that the wrappers bind to a set literal:
    `with { t = { k = 1; }; }; let u = t; in with { t = { k = 2; }; }; t` — reached through source["k"]."""
    g = S.Gen(r.randrange(2**40))
    wrappers = []
    for _ in range(r.choice([1, 2, 2, 3, 3, 4])):
        kind = "with" if r.random() < 0.5 else "let"
        bs = []
        for nm in r.sample(ALIAS_NAMES + ["z"], r.randint(1, 2)):
            if nm == "z":
                bs.append(g.mk("z", "int", g.fresh()))
            elif kind == "let" and r.random() < 0.3:
                bs.append(g.mk(nm, "ref", [x for x in ALIAS_NAMES if x != nm][0]))
            else:
                bs.append(g.mk(nm, "set", S.SetLit([g.mk("k", "int", g.fresh())])))
        wrappers.append(S.Frame(kind, bs))
    body = r.choice(ALIAS_NAMES)
    call = r.random() < 0.25
    out = []
    for w in wrappers:
        if w.kind == "let":
            out.append("let")
            S._print_bindings(w.bindings, 2, out)
            out.append("in")
        else:
            out.append("with {")
            S._print_bindings(w.bindings, 2, out)
            out.append("};")
    out.append(("mk " if call else "") + body)
    return {"kind": "alias", "wrappers": wrappers, "body": body, "call": call, "text": "\n".join(out) + "\n"}


def judge_alias(case):
    nima.reset_state()
    d = S.ScopeDoc(case["wrappers"], S.Frame("set", []))
    res = S.Resolver(d)
    try:
        val, _b = res.lookup(case["body"], case["wrappers"])
        exp = ("value", val.bindings[0].value) if isinstance(val, S.SetLit) else ("other",)
    except S.Unbound:
        exp = ("unbound",)
    except S.Cycle:
        exp = ("cycle",)
    kinds = [w.kind for w in case["wrappers"]]
    nwith = sum(1 for w in case["wrappers"] if w.kind == "with" and any(b.name == case["body"] for b in w.bindings))
    nlex = sum(1 for w in case["wrappers"] if w.kind == "let" and any(b.name == case["body"] for b in w.bindings))
    cls = f"alias|with{min(nwith, 2)}|let{min(nlex, 2)}|{'call' if case['call'] else 'name'}|exp:{exp[0]}"
    case["expected"] = list(exp)
    case["cls"] = cls
    return judge_alias_text(case)


def judge_alias_text(case):
    """case: text, expected ('value', n) | ('unbound',) | ('cycle',) | ('other',), cls"""
    nima.reset_state()
    exp, cls = tuple(case["expected"]), case["cls"]
    fails = []
    got = None
    for attempt in (1, 2):
        try:
            with guard.time_limit(10):
                src = nima.parse(case["text"]) if attempt == 1 else src
                node = src["k"]
                v = getattr(node, "value", None)
                g1 = ("value", v) if isinstance(v, int) and not isinstance(v, bool) else ("value-other", type(node).__name__)
        except (nima.ResolutionError, KeyError, ValueError) as e:
            g1 = ("explicit-failure", type(e).__name__)
        except guard.EvalTimeout:
            g1 = ("timeout", "")
        except Exception as e:  # noqa: BLE001
            g1 = ("exc", f"{type(e).__name__}@{innermost_frame(e)}")
        dd = {"text": case["text"], "expected": list(exp), "got": list(g1), "access": attempt}
        if g1[0] == "exc":
            fails.append((f"internal-error:{g1[1]}|{cls}", dd))
        elif g1[0] == "timeout":
            fails.append((f"unbounded-resolution|{cls}", dd))
        elif g1[0] == "value" and exp[0] == "value" and g1[1] != exp[1]:
            fails.append((f"wrong-binding|{cls}", dd))
        elif g1[0] == "value" and exp[0] in ("unbound", "cycle"):
            fails.append((f"resolved-{exp[0]}-name|{cls}", dd))
        if got is not None and got != g1:
            fails.append((f"second-access-differs|{cls}", dd | {"first": list(got)}))
        got = g1
        if fails:
            break
    return fails, cls + "|got:" + got[0]


def tworoute_case(r):
    """One set literal bound in an outer let, reached by two routes (as the environment of `with s;`, as the value of a
    reference, after a CLI write through the reference, after an earlier mapping read); its inner reference `k = a` is
    lexically the outer `a`, whatever inner layers re-bind `a` around the place of use."""
    base = r.randrange(1, 9) * 1000
    outer, inner1, inner2 = base + 1, base + 2, base + 3
    rec = r.random() < 0.3
    lit = ("rec " if rec else "") + "{ k = a; }"
    route = r.choice(["with", "with", "cli-write", "cli-write", "read-first", "plain"])
    first = [f"  a = {outer};", f"  s = {lit if route != 'cli-write' else '0'};"]
    r.shuffle(first)
    out = ["let"] + first + ["in"]
    nshadow = r.choice([1, 1, 2])
    for i in range(nshadow):
        out += ["let", f"  a = {inner1 + i};"] + ([f"  unrelated{i} = a;"] if r.random() < 0.3 else []) + ["in"]
    if route == "with" or (route != "cli-write" and r.random() < 0.2):
        out.append("with s;")
        has_with = True
    else:
        has_with = False
    body = ["  x = s;"] + (["  y = k;"] if has_with else []) + ["  z = a;"]
    r.shuffle(body)
    out += ["{"] + body + ["}"]
    steps = []
    if route == "cli-write":
        steps.append(["set", "x", lit])
    probes = [["probe", ["x"], "k", outer], ["probe", ["z"], None, inner1 + nshadow - 1]]
    if has_with:
        probes.append(["probe", ["y"], None, outer])
    r.shuffle(probes)
    if route == "read-first":
        probes.insert(0, ["probe", ["x"], None, None])
    steps += probes
    if r.random() < 0.3:
        steps += [list(p) for p in probes]
    return {"kind": "steps", "text": "\n".join(out) + "\n", "steps": steps, "cls": f"tworoute|{route}|{'with' if has_with else 'nowith'}|{'rec' if rec else 'plain'}"}


def withvalue_case(r):
    """`x = with env; { z = c; w = q; };` as a binding of a (rec) set below a let: resolved, then the enclosing set gains or
    loses its own `c` through the CLI helper on the same object, then resolved again."""
    base = r.randrange(1, 9) * 1000
    let_c, set_c, new_c, env_q = base + 1, base + 2, base + 3, base + 4
    rec = r.random() < 0.7
    has_c = r.random() < 0.5
    env_lit = r.random() < 0.25
    env = f"{{ q = {env_q}; }}" if env_lit else "env"
    body = ([f"  c = {set_c};"] if has_c else []) + [f"  x = with {env}; {{ z = c; w = q; }};", "  other = 1;"]
    r.shuffle(body)
    out = ["let", f"  c = {let_c};"] + ([] if env_lit else [f"  env = {{ q = {env_q}; }};"]) + ["in", ("rec {" if rec else "{")] + body + ["}"]
    cur = set_c if (rec and has_c) else let_c
    steps = [["probe", ["x", "z"], None, cur], ["probe", ["x", "w"], None, env_q]]
    if has_c:
        steps.append(["rm", "c"])
        after = let_c
    else:
        steps.append(["set", "c", str(new_c)])
        after = new_c if rec else let_c
    steps += [["probe", ["x", "z"], None, after], ["probe", ["x", "w"], None, env_q]]
    if r.random() < 0.5:
        steps.insert(0, steps.pop(1))
    return {"kind": "steps", "text": "\n".join(out) + "\n", "steps": steps, "cls": f"withvalue|{'rec' if rec else 'plain'}|{'rm' if has_c else 'add'}|{'literal-env' if env_lit else 'named-env'}"}



def judge_steps(case):
    nima.reset_state()
    fails = []
    cls = case["cls"]
    try:
        src = nima.parse(case["text"])
    except Exception as e:  # noqa: BLE001
        return [(f"setup-raises:{type(e).__name__}@{innermost_frame(e)}|{cls}", {"text": case["text"]})], 0
    answered = 0
    for i, st_ in enumerate(case["steps"]):
        if st_[0] == "set":
            try:
                text = nima.set_value(src, st_[1], st_[2])
            except Exception:  # noqa: BLE001
                return fails, answered
            if st_[1] == "x" and f"s = {st_[2]};" not in text:
                return fails, answered  # where the write lands is C11's subject; only the written-through shape is probed here
            continue
        if st_[0] == "rm":
            try:
                nima.remove_value(src, st_[1])
            except Exception:  # noqa: BLE001
                return fails, answered
            continue
        _p, keys, inner, exp = st_
        try:
            with guard.time_limit(10):
                obj = src
                for k in keys:
                    obj = obj[k]
                val = obj.value if isinstance(obj, Identifier) else obj
                if inner is not None:
                    leaf = val[inner]
                    val = leaf.value if isinstance(leaf, Identifier) else leaf
                v = getattr(val, "value", None)
                got = ("value", v) if isinstance(v, int) and not isinstance(v, bool) else ("other", type(val).__name__)
        except (nima.ResolutionError, KeyError) as e:
            got = ("explicit-failure", type(e).__name__)
        except guard.EvalTimeout:
            got = ("timeout", "")
        except Exception as e:  # noqa: BLE001
            got = ("exc", f"{type(e).__name__}@{innermost_frame(e)}")
        d = {"text": case["text"], "step": i, "steps": case["steps"], "got": list(got), "expected": exp}
        if exp is None:
            continue
        if got[0] == "exc":
            fails.append((f"internal-error:{got[1]}|{cls}", d))
        elif got[0] == "timeout":
            fails.append((f"unbounded-resolution|{cls}", d))
        elif exp == "unbound":
            if got[0] in ("value", "other"):
                fails.append((f"resolved-unbound-name|{cls}", d))
        elif got[0] == "value" and got[1] != exp:
            fails.append((f"wrong-binding|{cls}", d))
        elif got[0] == "value":
            answered += 1
        if fails:
            break
    return fails, answered



def replay(case):
    if case.get("kind") == "steps":
        return judge_steps(case)[0]
    if case.get("kind") == "alias":
        return judge_alias_text(case)[0]
    if "raw" in case:
        nima.reset_state()
        src = nima.parse(case["raw"]["text"])
        fails = []
        for keys, exp in case["raw"]["probes"]:
            got = resolve_probe(src, tuple(keys))
            if exp[0] == "value" and got[0] == "value" and got[1] != exp[1]:
                fails.append(("wrong-binding|raw", {"keys": keys, "got": got[1], "expected": exp[1]}))
            if exp[0] == "unbound" and got[0] in ("value", "value-other"):
                fails.append(("resolved-unbound-name|raw", {"keys": keys, "got": list(got)}))
        return fails
    if case.get("kind") == "history":
        return history_check(random.Random(case["seed"]), None, case.get("kw", {}))
    g = S.Gen(case["seed"], **case.get("kw", {}))
    d = g.doc()
    fails, _ = judge_doc(d, S.render(d))
    return fails


def gen_kw(quarantine):
    kw = {}
    for q in quarantine or []:
        kw.update(q.get("scopegen", {}))
    return kw


def plan(tier):
    return {"shards": 16, "examples": 500 if tier == "quick" else 12000, "wall_limit": 300 if tier == "quick" else 2400}


def run_shard(sh):
    examples = int(sh.params["examples"] * sh.params.get("scale", 1.0))
    kw = gen_kw(sh.quarantine)

    @seed(sh.hseed)
    @settings(max_examples=examples, database=None, deadline=None, suppress_health_check=list(HealthCheck), phases=[Phase.generate])
    @given(st.integers(0, 2**48))
    def prop(n):
        if sh.over_budget():
            sh.skipped_budget += 1
            return
        sh.now(n)
        if n % 10 == 0:
            fails = history_check(random.Random(n), sh, kw)
            case = {"kind": "history", "seed": n, "kw": kw}
            sh.record(case, True, ["history"])
            for k, d in fails:
                sh.fail(k, case, d)
            return
        if n % 10 in (1, 2):
            c = alias_case(random.Random(n))
            fails, cls = judge_alias(c)
            case = {"kind": "alias", "seed": n, "text": c["text"], "expected": c["expected"], "cls": c["cls"]}
            parts = cls.split("|")
            sh.record(case, parts[-1] == "got:value" and (parts[1] != "with0") + (parts[2] != "let0") >= 1, ["alias-body"] + parts[1:])
            seen = set()
            for k, dd in fails:
                if k not in seen:
                    seen.add(k)
                    sh.fail(k, case, dd)
            return
        if n % 10 == 3:
            case = tworoute_case(random.Random(n)) if (n // 10) % 2 == 0 else withvalue_case(random.Random(n))
            fails, answered = judge_steps(case)
            sh.record(case, answered >= 2, case["cls"].split("|") + [f"answered:{min(answered, 3)}"])
            for k, dd in fails[:1]:
                sh.fail(k, case, dd)
            return
        g = S.Gen(n, **kw)
        d = g.doc()
        text = S.render(d)
        if cst.parse(text).root.has_error:
            sh.notes["generator-invalid"] += 1
            return
        fails, recs = judge_doc(d, text)
        case = {"seed": n, "kw": kw, "text": text}
        classes = []
        nontriv = False
        for got, fs in recs:
            classes.append("got:" + got)
            classes.extend(fs)
            if set(fs) & {"shadowed", "inherit", "inherit_from", "with-present"} and got == "value":
                nontriv = True
        sh.record(case, nontriv, classes)
        seen = set()
        for k, dd in fails:
            if k in seen:
                continue
            seen.add(k)
            sh.fail(k, case, dd)

    prop()
