"""C14 — the mapping API obeys dictionary laws and the rebuilt text always agrees with it."""

import copy
import random

from hypothesis import HealthCheck, Phase, seed, settings
from hypothesis import strategies as st
from hypothesis.stateful import RuleBasedStateMachine, initialize, invariant, rule, run_state_machine_as_test

from vf import cst, nima
from vf.props.rt_common import innermost_frame

ID = "C14"
LEVEL = "exploration"
RULE = (
    "Hypothesis rule-based state machine over one parsed document whose values are plain data (so that the rebuilt text can be read back as a nested "
    "dict by the independent CST reader). Document shapes: plain, nested explicit sets, attrpath-derived bindings (one and several members per root, "
    "adjacent and interleaved), lambda/let/call wrappers, and a let scope for the scope mapping. Rules: get / set / delete of existing and absent keys on "
    "the document mapping, on nested sets reached through it (src[a][b]) and on the scope mapping; get of a missing key; assignment into a non-mapping "
    "value. The model is a nested dict. After every rule: the law of the rule (lookup after set returns the value and other keys are untouched, KeyError "
    "after delete, KeyError on a missing key with no side effect, an exception for a non-mapping target) and the invariant that the rebuilt text read "
    "back as data equals the model exactly - no more and no fewer bindings, no duplicate definitions. Non-trivial = a history with >=1 step that touches "
    "an attrpath-derived or nested binding."
    ' Further rules: the CLI helper `set` on the same object (accepted edits must be visible through the mappings, refused ones change nothing), dotted-key lookups (`m["a.b"]`: existing, through a scalar, missing tail); documents without any expression; around every failing lookup the rebuilt text must not change.'
)
ASSUMPTIONS = ["values are restricted to ints, strings, booleans, lists and dicts so that text and model are comparable as data"]

DOCS = [
    ("plain", "{\n  a = 1;\n  b = \"x\";\n  c = true;\n}\n", None),
    ("nested", "{\n  a = {\n    x = 1;\n    y = {\n      z = 2;\n    };\n  };\n  b = 3;\n}\n", None),
    ("attrpath-single", "{\n  a.b = 1;\n  d = 3;\n}\n", None),
    ("attrpath-family", "{\n  a.b = 1;\n  a.c = 2;\n  d = 3;\n  e = 4;\n}\n", None),
    ("attrpath-interleaved", "{\n  a.b = 1;\n  d = 3;\n  a.c.k = 2;\n  e = [ 1 2 ];\n}\n", None),
    ("attrpath-deep", "{\n  a.b.c.d = 1;\n  e = 3;\n}\n", None),
    ("attrpath-deep-family", "{\n  a.b.c.d = 1;\n  a.b.x = 2;\n  n.m.p.q.k = 3;\n  e = 4;\n}\n", None),
    ("attrpath-mixed-spelling", "{\n  a.b.c = 1;\n  a.\"b\".d = 2;\n  \"a\".x = 3;\n  e = 4;\n}\n", None),
    ("attrpath-deep-in-nested", "{\n  n = {\n    p.q.k = 1;\n    p.q.j = 2;\n    p.r = 3;\n    x = 4;\n  };\n  m = 5;\n}\n", None),
    ("attrpath-in-nested", "{\n  n = {\n    p.q = 1;\n    p.r = 2;\n  };\n  m = 5;\n}\n", None),
    ("lambda", "{ pkgs }:\n{\n  a = 1;\n  b = {\n    c = 2;\n  };\n}\n", None),
    ("call", "f {\n  a = 1;\n  b.c = 2;\n}\n", None),
    ("scoped", "let\n  v = 1;\n  w = {\n    k = 2;\n  };\nin\n{\n  a = 3;\n  b = 4;\n}\n", "scope"),
    ("scoped-two-layers", "let\n  a = 1;\nin\nlet\n  s = 2;\n  t = 3;\nin\n{\n  k = 1;\n}\n", "scope"),
    ("scoped-attrpath", "let\n  v.x = 1;\n  u = 5;\nin\n{\n  a = 3;\n}\n", "scope"),
    ("ident-body", "let\n  cfg = {\n    a = 1;\n    b = 2;\n  };\n  other = 7;\nin\ncfg\n", "alias:cfg"),
    ("ident-body-with", "let\n  cfg = {\n    a = 1;\n    b = 2;\n  };\nin\nwith { cfg = { z = 9; }; };\ncfg\n", "alias:cfg"),
    ("attrpath-explicit-member", "{\n  a.b = 1;\n  a.s = {\n    k = 1;\n  };\n  d = 3;\n}\n", None),
    ("empty-file", "", None),
    ("comment-only", "# c\n", None),
    ("inline", "{ a = 1; }\n", None),
    ("empty", "{ }\n", None),
]
KEYS = ["a", "b", "c", "d", "e", "x", "y", "z", "n", "m", "p", "q", "k", "v", "w", "u", "new1", "new2"]
VALUES = [1, 2, 42, "s", "two words", True, False, [1, 2], [], {"k1": 1}, {"k1": 1, "k2": {"k3": "v"}}, {}]


def count_lets(text):
    return len(cst.find_target(cst.parse(text), follow_names=False)[1])


def read_text(text, alias=None, nlets=None):
    """(core dict, scope dict | None) read by the independent reader, or raises cst.NotData."""
    tree = cst.parse(text)
    if cst.errors(tree):
        raise cst.NotData("invalid")
    core, lets, kinds = cst.find_target(tree, follow_names=False)
    if core is None:
        if alias is None and not cst.top_expressions(tree):
            return {}, None  # a file without any expression maps to no keys
        if alias is None:
            raise cst.NotData("no-target")
        data = None
    else:
        data = cst.to_data(tree, core)
    scope = None
    if nlets is not None and alias is None and (len(lets) < nlets - 1 or len(lets) > nlets):
        raise cst.NotData(f"{len(lets)} let layers in the text, {nlets} at the start")
    if nlets is not None and len(lets) == nlets - 1:
        # the outermost layer (the one `expr.scope` maps to) lost its last binding and vanished with it
        scope = {}
        lets = []
    if lets:
        scope = {}
        ln = lets[0] if alias is None else lets[-1]
        for it in cst._binding_items(ln):
            if it.type != "binding":
                raise cst.NotData("inherit-in-let")
            ap = next(k for k in it.children if k.type == "attrpath")
            names = [cst.attr_name(tree, s)[0] for s in ap.children if s.type not in (".", "comment")]
            val = next(k for k in it.children if k.type not in ("attrpath", "=", ";", "comment"))
            cur = scope
            for nm in names[:-1]:
                cur = cur.setdefault(nm, {})
            if names[-1] in cur:
                raise cst.NotData("duplicate " + names[-1])
            cur[names[-1]] = cst.to_data(tree, val)
    if alias is not None:
        if scope is None or not isinstance(scope.get(alias), dict):
            raise cst.NotData("alias target is not a set")
        data = scope[alias]
    return data, scope


def differs(a, b) -> bool:
    """Type-aware inequality: Python's `1 == True` and `2 == 2.0` are different Nix values."""
    if isinstance(a, dict) and isinstance(b, dict):
        return set(a) != set(b) or any(differs(a[k], b[k]) for k in a)
    if isinstance(a, (list, tuple)) and isinstance(b, (list, tuple)):
        return len(a) != len(b) or any(differs(x, y) for x, y in zip(a, b))
    if type(a) is not type(b):
        return True
    return a != b


def to_py(expr):
    """Best-effort conversion of a nima value to Python data through its rendered text."""
    from nix_manipulator.expressions.expression import NixExpression

    if isinstance(expr, NixExpression):
        text = expr.rebuild()
        tree = cst.parse(text)
        tops = cst.top_expressions(tree)
        if cst.errors(tree) or len(tops) != 1:
            raise cst.NotData("unreadable value")
        return cst.to_data(tree, tops[0])
    return expr


def get_path(d, path):
    for k in path:
        d = d[k]
    return d


def make_machine(sh, blocked_docs, blocked_ops):
    class Machine(RuleBasedStateMachine):
        def __init__(self):
            super().__init__()
            self.dead = False
            self.history = []
            self.touched_special = False

        @initialize(i=st.integers(0, len(DOCS) - 1))
        def start(self, i):
            nima.reset_state()
            choices = [d for d in DOCS if d[0] not in blocked_docs]
            self.shape, self.text0, self.extra = choices[i % len(choices)]
            self.src = nima.parse(self.text0)
            self.alias = self.extra.split(":", 1)[1] if self.extra and self.extra.startswith("alias:") else None
            self.nlets0 = count_lets(self.text0)
            self.model, self.scope_model = read_text(self.text0, self.alias)

        def _fail(self, kind, detail):
            self.dead = True
            sh.fail(f"{kind}|{self.shape}", {"doc": self.text0, "ops": self.history}, dict(detail, history=self.history[-4:]))

        def _mapping(self, where, path):
            """nima mapping object and model dict for a location."""
            if where == "scope":
                obj = self.src.expr.scope
                model = self.scope_model
            else:
                obj = self.src
                model = self.model
            for k in path:
                obj = obj[k]
                model = model[k]
            return obj, model

        def _locations(self):
            """[(where, path)] of every mapping (dict) in the models."""
            out = [("doc", ())]

            def walk(d, path, where):
                for k, v in d.items():
                    if isinstance(v, dict):
                        out.append((where, path + (k,)))
                        walk(v, path + (k,), where)

            walk(self.model, (), "doc")
            if self.scope_model is not None:
                out.append(("scope", ()))
                walk(self.scope_model, (), "scope")
            return out

        def _text(self):
            try:
                return self.src.rebuild()
            except Exception as e:  # noqa: BLE001
                return f"<rebuild raises {type(e).__name__}>"

        @rule(n=st.integers(0, 10**6), key=st.sampled_from(KEYS), value=st.sampled_from([("7", 7), ('"cli"', "cli"), ("{ c1 = 1; }", {"c1": 1})]), deep=st.booleans(), existing=st.booleans())
        def cli_set(self, n, key, value, deep, existing):
            """The CLI helper on the same object, mixed into the mapping history: whatever it accepts has to be visible through
            the mappings exactly like an assignment; what it refuses leaves mapping and text alone (checked by the invariant)."""
            if self.dead or self.alias is not None or self.shape in ("empty-file", "comment-only") or "cli" in blocked_ops:
                return
            r = random.Random(n)
            where, path = r.choice([loc for loc in self._locations() if loc[0] == "doc"])
            try:
                obj, model = self._mapping(where, path)
            except Exception as e:  # noqa: BLE001
                return self._fail("mapping-walk-raises", {"exc": repr(e)[:100], "path": list(path)})
            if existing and model:
                key = r.choice(sorted(model))
            segs = list(path) + [key]
            if deep:
                if key in model and not isinstance(model[key], dict):
                    return  # through a leaf: a refusal, which is C08's subject
                segs.append(r.choice(["z", "new1", "k"]))
            text, py = value
            self.history.append(["cli-set", "doc", segs, text])
            try:
                nima.set_value(self.src, ".".join(segs), text)
            except (KeyError, ValueError):
                sh.classes["op:cli-set-refused"] += 1
                return
            except Exception as e:  # noqa: BLE001
                return self._fail(f"cli-set-raises:{type(e).__name__}", {"exc": innermost_frame(e), "path": segs})
            m = self.model
            for sname in segs[:-1]:
                nxt = m.get(sname)
                if not isinstance(nxt, dict):
                    nxt = m[sname] = {}
                m = nxt
            m[segs[-1]] = copy.deepcopy(py)
            self.touched_special = True
            sh.classes["op:cli-set-accepted"] += 1
            try:
                o = self.src
                for sname in segs:
                    o = o[sname]
                got = to_py(o)
            except Exception as e:  # noqa: BLE001
                return self._fail(f"lookup-after-cli-set-raises:{type(e).__name__}", {"path": segs})
            if differs(got, py):
                return self._fail("lookup-after-cli-set-differs", {"path": segs, "want": py, "got": got})

        def _special(self, where, path, key):
            return "attrpath" in self.shape or len(path) > 0 or where == "scope" or self.alias is not None

        @rule(n=st.integers(0, 10**6), key=st.sampled_from(KEYS), value=st.sampled_from(VALUES), existing=st.booleans())
        def set_item(self, n, key, value, existing):
            if self.dead:
                return
            r = random.Random(n)
            where, path = r.choice(self._locations())
            try:
                obj, model = self._mapping(where, path)
            except Exception as e:  # noqa: BLE001
                return self._fail("mapping-walk-raises", {"exc": repr(e)[:100], "path": list(path)})
            if existing and model:
                key = r.choice(sorted(model))
            opclass = "set-existing" if key in model else "set-new"
            if (opclass + ("@" + where if where == "scope" else "")) in blocked_ops or (opclass + "@" + ("nested" if path else where)) in blocked_ops:
                return
            self.history.append(["set", where, list(path), key, value])
            others = {k: copy.deepcopy(v) for k, v in model.items() if k != key}
            try:
                obj[key] = copy.deepcopy(value)
            except Exception as e:  # noqa: BLE001
                return self._fail(f"set-raises:{type(e).__name__}|{opclass}", {"exc": f"{type(e).__name__}@{innermost_frame(e)}", "key": key})
            model[key] = copy.deepcopy(value)
            if self.alias is not None and where == "scope" and not path and key == self.alias:
                if not isinstance(model[key], dict):
                    self.dead = True  # the document body no longer names a set: nothing further to compare
                    return
                self.model = model[key]
                sh.notes["alias-rebound"] += 1
            if self._special(where, path, key):
                self.touched_special = True
            try:
                got = to_py(obj[key])
            except Exception as e:  # noqa: BLE001
                return self._fail(f"lookup-after-set-raises:{type(e).__name__}|{opclass}", {"key": key})
            if differs(got, value):
                return self._fail(f"lookup-after-set-differs|{opclass}", {"key": key, "want": value, "got": got})
            sh.classes[f"op:{opclass}@{'nested' if path else where}"] += 1

        @rule(value=st.sampled_from([v for v in VALUES if isinstance(v, dict)]))
        def rebind_alias(self, value):
            """Documents whose body is an identifier: rebind the name the document mapping goes through."""
            if self.dead or self.alias is None:
                return
            self.history.append(["set", "scope", [], self.alias, value])
            try:
                self.src.expr.scope[self.alias] = copy.deepcopy(value)
            except Exception as e:  # noqa: BLE001
                return self._fail(f"set-raises:{type(e).__name__}|rebind-alias", {"exc": innermost_frame(e)})
            self.scope_model[self.alias] = copy.deepcopy(value)
            self.model = self.scope_model[self.alias]
            self.touched_special = True
            sh.notes["alias-rebound"] += 1

        @rule(n=st.integers(0, 10**6), key=st.sampled_from(KEYS), existing=st.booleans())
        def del_item(self, n, key, existing):
            if self.dead:
                return
            r = random.Random(n)
            where, path = r.choice(self._locations())
            try:
                obj, model = self._mapping(where, path)
            except Exception as e:  # noqa: BLE001
                return self._fail("mapping-walk-raises", {"exc": repr(e)[:100], "path": list(path)})
            if existing and model:
                key = r.choice(sorted(model))
            present = key in model
            opclass = "del-existing" if present else "del-missing"
            if (opclass + "@" + ("nested" if path else where)) in blocked_ops:
                return
            self.history.append(["del", where, list(path), key])
            before = None if present else self._text()
            no_expr = where == "doc" and not path and not self.src.expressions
            try:
                del obj[key]
                raised = None
            except KeyError as e:
                raised = e
            except ValueError as e:
                if not no_expr:
                    return self._fail(f"del-raises:ValueError|{opclass}", {"key": key})
                raised = e  # a file without any expression: which of the two documented errors is raised is left open
            except Exception as e:  # noqa: BLE001
                return self._fail(f"del-raises:{type(e).__name__}|{opclass}", {"key": key})
            if present:
                if raised is not None:
                    return self._fail("del-existing-raises-KeyError", {"key": key, "path": list(path)})
                del model[key]
                if self.alias is not None and where == "scope" and not path and key == self.alias:
                    self.dead = True
                    return
                if self._special(where, path, key):
                    self.touched_special = True
                try:
                    obj[key]
                    return self._fail("lookup-after-del-succeeds", {"key": key})
                except KeyError:
                    pass
                except Exception as e:  # noqa: BLE001
                    return self._fail(f"lookup-after-del-raises:{type(e).__name__}", {"key": key})
            elif raised is None:
                return self._fail("del-missing-succeeds", {"key": key})
            elif before is not None and self._text() != before:
                return self._fail("missing-key-has-side-effect|del", {"key": key, "before": before[:200], "after": self._text()[:200]})
            sh.classes[f"op:{opclass}@{'nested' if path else where}"] += 1

        @rule(n=st.integers(0, 10**6), key=st.sampled_from(KEYS))
        def get_item(self, n, key):
            if self.dead:
                return
            r = random.Random(n)
            where, path = r.choice(self._locations())
            try:
                obj, model = self._mapping(where, path)
            except Exception as e:  # noqa: BLE001
                return self._fail("mapping-walk-raises", {"exc": repr(e)[:100], "path": list(path)})
            if model and r.random() < 0.7:
                key = r.choice(sorted(model))
            self.history.append(["get", where, list(path), key])
            before = None if key in model else self._text()
            no_expr = where == "doc" and not path and not self.src.expressions
            try:
                got = obj[key]
            except (KeyError, ValueError) as e:
                if isinstance(e, ValueError) and not no_expr:
                    return self._fail("get-raises:ValueError", {"key": key})
                if key in model:
                    return self._fail("get-existing-raises-KeyError", {"key": key, "path": list(path)})
                if before is not None and self._text() != before:
                    return self._fail("missing-key-has-side-effect|get", {"key": key, "before": before[:200], "after": self._text()[:200]})
                return
            except Exception as e:  # noqa: BLE001
                return self._fail(f"get-raises:{type(e).__name__}", {"key": key})
            if key not in model:
                return self._fail("get-missing-returns-value", {"key": key})
            try:
                if differs(to_py(got), model[key]):
                    return self._fail("get-returns-wrong-value", {"key": key, "want": model[key]})
            except cst.NotData:
                pass

        @rule(n=st.integers(0, 10**6))
        def get_dotted(self, n):
            """`m["a.b.c"]` walks the path (documented fallback of the mapping): the value when every step exists, KeyError
            otherwise — also when the path runs into a value that is not a mapping."""
            if self.dead or self.alias is not None or not self.model:
                return
            r = random.Random(n)
            segs, cur = [], self.model
            for _ in range(r.randint(1, 3)):
                if not isinstance(cur, dict) or not cur:
                    break
                k = r.choice(sorted(cur))
                segs.append(k)
                cur = cur[k]
            kind = r.choice(["existing", "through-scalar", "missing-tail"])
            if kind == "through-scalar":
                if isinstance(cur, dict):
                    return
                segs.append(r.choice(["major", "z", "k"]))
            elif kind == "missing-tail":
                if not isinstance(cur, dict):
                    return
                segs.append("absent9")
            if len(segs) < 2 or any("." in s_ for s_ in segs):
                return
            key = ".".join(segs)
            self.history.append(["get", "doc", [], key])
            before = self._text()
            try:
                got = self.src[key]
            except KeyError:
                if kind == "existing":
                    return self._fail("get-existing-raises-KeyError|dotted", {"key": key})
                if self._text() != before:
                    return self._fail("missing-key-has-side-effect|get-dotted", {"key": key})
                sh.classes["op:get-dotted-" + kind] += 1
                return
            except Exception as e:  # noqa: BLE001
                return self._fail(f"get-raises:{type(e).__name__}|dotted-{kind}", {"key": key})
            if kind != "existing":
                return self._fail("get-missing-returns-value|dotted", {"key": key})
            try:
                if differs(to_py(got), cur):
                    return self._fail("get-returns-wrong-value|dotted", {"key": key, "want": cur})
            except cst.NotData:
                pass
            sh.classes["op:get-dotted-existing"] += 1

        @rule(n=st.integers(0, 10**6))
        def set_into_non_mapping(self, n):
            if self.dead:
                return
            r = random.Random(n)
            scalars = [k for k, v in self.model.items() if not isinstance(v, dict)]
            if not scalars:
                return
            k = r.choice(scalars)
            self.history.append(["set-into-scalar", "doc", [k], "z", 1])
            try:
                self.src[k]["z"] = 1
            except Exception:  # noqa: BLE001
                return
            self._fail("assign-into-non-mapping-accepted", {"key": k})

        @invariant()
        def text_agrees(self):
            if self.dead or not hasattr(self, "src"):
                return
            try:
                text = self.src.rebuild()
            except Exception as e:  # noqa: BLE001
                return self._fail(f"rebuild-raises:{type(e).__name__}", {"exc": innermost_frame(e)})
            try:
                data, scope = read_text(text, self.alias, self.nlets0)
            except cst.NotData as e:
                return self._fail("text-unreadable", {"why": str(e), "text": text[:300]})
            if differs(data, self.model):
                last = self.history[-1] if self.history else None
                opk = (last[0] + ("-scope" if last[1] == "scope" else "-nested" if last[2] else "")) if last else "init"
                return self._fail(f"text-disagrees-with-mapping|{opk}", {"model": self.model, "text": text[:400]})
            if self.scope_model is not None and (scope or {}) != self.scope_model:
                return self._fail("scope-text-disagrees-with-mapping", {"model": self.scope_model, "text": text[:400]})

        def teardown(self):
            if hasattr(self, "src"):
                sh.record({"doc": self.text0, "ops": self.history}, self.touched_special, ["shape:" + self.shape, f"len:{min(len(self.history), 10)}"])

    return Machine


def replay(case):
    """Re-run a recorded history outside Hypothesis with the same laws."""
    nima.reset_state()
    src = nima.parse(case["doc"])
    alias = "cfg" if case["doc"].rstrip().endswith("in\ncfg") else None
    nlets0 = count_lets(case["doc"])
    model, scope_model = read_text(case["doc"], alias)
    fails = []
    for op in case["ops"]:
        kind, where, path, key = op[0], op[1], op[2], op[3]
        try:
            obj = src.expr.scope if where == "scope" else src
            m = scope_model if where == "scope" else model
            if kind == "cli-set":
                segs, text = op[2], op[3]
                py = {"7": 7, '"cli"': "cli", "{ c1 = 1; }": {"c1": 1}}[text]
                try:
                    nima.set_value(src, ".".join(segs), text)
                except (KeyError, ValueError):
                    continue
                mm = model
                for sname in segs[:-1]:
                    if not isinstance(mm.get(sname), dict):
                        mm[sname] = {}
                    mm = mm[sname]
                mm[segs[-1]] = copy.deepcopy(py)
                o = src
                try:
                    for sname in segs:
                        o = o[sname]
                    if differs(to_py(o), py):
                        fails.append(("lookup-after-cli-set-differs", {"path": segs}))
                except Exception as e:  # noqa: BLE001
                    fails.append((f"lookup-after-cli-set-raises:{type(e).__name__}", {"path": segs}))
                data, scope = read_text(src.rebuild(), alias, nlets0)
                if differs(data, model):
                    fails.append(("text-disagrees-with-mapping", {"model": model, "text": src.rebuild()[:300]}))
                    break
                continue
            if kind == "set-into-scalar":
                try:
                    src[path[0]]["z"] = 1
                    fails.append(("assign-into-non-mapping-accepted", {}))
                except Exception:  # noqa: BLE001
                    pass
                continue
            for k in path:
                obj = obj[k]
                m = m[k]
            if kind == "set":
                obj[key] = copy.deepcopy(op[4])
                m[key] = copy.deepcopy(op[4])
            elif kind == "del":
                try:
                    del obj[key]
                    if key not in m:
                        fails.append(("del-missing-succeeds", {}))
                    m.pop(key, None)
                except KeyError:
                    if key in m:
                        fails.append(("del-existing-raises-KeyError", {"key": key}))
            elif "." in key:
                segs, mm, ok = key.split("."), m, True
                for sname in segs:
                    if isinstance(mm, dict) and sname in mm:
                        mm = mm[sname]
                    else:
                        ok = False
                        break
                try:
                    obj[key]
                    if not ok:
                        fails.append(("get-missing-returns-value|dotted", {"key": key}))
                except KeyError:
                    if ok:
                        fails.append(("get-existing-raises-KeyError|dotted", {"key": key}))
            else:
                try:
                    obj[key]
                except KeyError:
                    if key in m:
                        fails.append(("get-existing-raises-KeyError", {"key": key}))
        except Exception as e:  # noqa: BLE001
            fails.append((f"raises:{type(e).__name__}", {"op": op}))
            break
        try:
            if alias is not None and kind in ("set", "del") and where == "scope" and not path and key == alias:
                if kind == "del" or not isinstance(scope_model.get(alias), dict):
                    break
                model = scope_model[alias]
            data, scope = read_text(src.rebuild(), alias, nlets0)
            if differs(data, model) or (scope_model is not None and differs(scope or {}, scope_model)):
                fails.append(("text-disagrees-with-mapping", {"model": model, "text": src.rebuild()[:300]}))
                break
        except cst.NotData as e:
            fails.append(("text-unreadable", {"why": str(e)}))
            break
    return fails


def plan(tier):
    return {"shards": 16, "examples": 500 if tier == "quick" else 5000, "steps": 20 if tier == "quick" else 30, "wall_limit": 300 if tier == "quick" else 2400}


def run_shard(sh):
    examples = int(sh.params["examples"] * sh.params.get("scale", 1.0))
    blocked_docs = {q["doc_shape"] for q in (sh.quarantine or []) if "doc_shape" in q}
    blocked_ops = {q["op"] for q in (sh.quarantine or []) if "op" in q}
    sh.excluded += len(blocked_docs)
    Machine = make_machine(sh, blocked_docs, blocked_ops)
    run_state_machine_as_test(
        seed(sh.hseed)(Machine),
        settings=settings(max_examples=examples, stateful_step_count=sh.params["steps"], database=None, deadline=None, suppress_health_check=list(HealthCheck), phases=[Phase.generate], report_multiple_bugs=False),
    )
