#!/venv/bin/python
"""atheris / libFuzzer entry point for C20 (and the pass-through clause of C07).

usage: c20_target.py [libFuzzer flags] CORPUS_DIR
The semantic oracle is inside the target: parse+rebuild of any UTF-8 text may only raise ValueError /
NixSyntaxError; a text that tree-sitter reports as erroneous must be passed through byte for byte.
Global library state (_CONTEXTS) is reset at the top of every iteration.  Inputs stay below 250 lines /
250 bytes per line (py-tree-sitter Point bug, see DESIGN).
"""
import os
import sys

HERE = os.path.dirname(os.path.dirname(os.path.dirname(os.path.abspath(__file__))))
sys.path[:0] = [os.environ.get("NIMA_REPO", "/repo"), HERE, os.path.join(HERE, ".deps")]

import atheris  # noqa: E402

with atheris.instrument_imports(include=["nix_manipulator"]):
    import nix_manipulator  # noqa: F401
    from nix_manipulator import parse
    from nix_manipulator import resolution as _res
    from nix_manipulator.exceptions import NixSyntaxError

from vf import cst  # noqa: E402

SKIP_LEADING_WS = os.environ.get("VF_SKIP_LEADING_WS") == "1"


def TestOneInput(data: bytes) -> None:
    try:
        text = data.decode("utf-8")
    except UnicodeDecodeError:
        return
    if not cst.env_ok(text) or len(text) > 400:
        return
    if SKIP_LEADING_WS and text[:1].isspace():
        return  # open finding F01 (leading whitespace misaligns every gap offset): excluded by construction
    _res._CONTEXTS.clear()
    try:
        out = parse(text).rebuild()
    except (ValueError, NixSyntaxError):
        return
    except RecursionError:
        raise
    if cst.parse(text).root.has_error and out != text:
        raise AssertionError("erroneous text not passed through")


if __name__ == "__main__":
    atheris.Setup(sys.argv, TestOneInput)
    atheris.Fuzz()
