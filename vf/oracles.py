"""Oracles shared by the round-trip properties (C01, C03, C06, C18).

Each oracle takes the input text / tree and the rebuilt text and returns a list
of (kind, detail) failures.  They only use vf.cst (tree-sitter), never nima.
"""

from __future__ import annotations

from vf import cst

CLOSERS = {"}", "]", ")"}
OPENER_OF = {"}": ("{", "${"), "]": ("[",), ")": ("(",)}


def c01(in_tree, out_text):
    out_tree = cst.parse(out_text)
    fails = []
    errs = cst.errors(out_tree)
    if errs:
        fails.append(("invalid-output", {"errors": [out_tree.s(e)[:40] + f"@{e.start_byte}:{e.type}" for e in errs[:3]]}))
        return fails, out_tree
    a = cst.norm_token_keys(in_tree)
    b = cst.norm_token_keys(out_tree)
    if a != b:
        i = next((k for k, (x, y) in enumerate(zip(a, b)) if x != y), min(len(a), len(b)))
        fails.append(("tokens-differ", {"at": i, "in": a[max(0, i - 2) : i + 3], "out": b[max(0, i - 2) : i + 3], "len_in": len(a), "len_out": len(b)}))
    return fails, out_tree


def c03(in_tree, out_tree):
    """Comments survive exactly once, same order, same wording, same side of every barrier token."""
    ci = cst.comments_with_barriers(in_tree)
    co = cst.comments_with_barriers(out_tree)
    fails = []
    wi = [(c.kind, c.wording) for c in ci]
    wo = [(c.kind, c.wording) for c in co]
    if wi != wo:
        if sorted(wi) == sorted(wo):
            fails.append(("reordered", {"in": wi[:6], "out": wo[:6]}))
        elif len(wo) < len(wi):
            missing = list(wi)
            for w in wo:
                if w in missing:
                    missing.remove(w)
            if len(wo) + len(missing) == len(wi):
                fails.append(("lost", {"missing": missing[:4], "n_in": len(wi), "n_out": len(wo)}))
            else:
                fails.append(("lost+changed", {"in": wi[:6], "out": wo[:6]}))
        elif len(wo) > len(wi):
            fails.append(("duplicated", {"in": wi[:6], "out": wo[:6]}))
        else:
            diff = [(a, b) for a, b in zip(wi, wo) if a != b]
            fails.append(("wording", {"pairs": diff[:3]}))
        return fails
    for a, b in zip(ci, co):
        if a.barriers_before != b.barriers_before:
            fails.append(("moved", {"comment": a.raw[:40], "barriers_in": a.barriers_before, "barriers_out": b.barriers_before}))
            break
    return fails


def has_midline_comment(tree) -> bool:
    """True when some comment is followed by code on the line where the comment ends (outside C06's domain)."""
    return any(not c.ends_line for c in cst.comments(tree))


def _segments(tree):
    """(start, end, left leaf|None, right leaf|None) for every span between consecutive leaves
    (comments included as leaves) that lies outside string/path content."""
    lv = cst.leaves(tree)
    src_len = len(tree.src)
    res = []
    prev = None
    for n in lv + [None]:
        start = prev.end_byte if prev is not None else 0
        end = n.start_byte if n is not None else src_len
        inside_string = False
        if prev is not None and n is not None:
            inside_string = _string_side(prev, True) or _string_side(n, False)
        if not inside_string:
            res.append((start, end, prev, n))
        prev = n
    return res


_STR_PARTS = {"string_fragment", "escape_sequence", "dollar_escape", "path_fragment"}
_STRINGY = ("string_expression", "indented_string_expression", "path_expression", "hpath_expression")


def _string_side(n, left: bool) -> bool:
    t = n.type
    if t in _STR_PARTS:
        return True
    p = n.parent
    if p is None:
        return False
    if t in ('"', "''") and p.type in ("string_expression", "indented_string_expression"):
        first = p.children[0].id == n.id
        return first if left else (not first)
    if t == "}" and p.type == "interpolation" and left:
        return p.parent is not None and p.parent.type in _STRINGY
    if t == "${" and p.type == "interpolation" and not left:
        return p.parent is not None and p.parent.type in _STRINGY
    return False


def _in_string_interp(n) -> bool:
    while n is not None:
        if n.type == "interpolation" and n.parent is not None and n.parent.type in _STRINGY:
            return True
        n = n.parent
    return False


def c18(out_tree):
    """Spacing normal form of the rebuilt text (lexical scan outside strings and comments)."""
    fails = []
    src = out_tree.src

    def seen(kind, detail):
        if not any(k == kind for k, _ in fails):
            fails.append((kind, detail))

    line_start_of = {}
    for start, end, left, right in _segments(out_tree):
        if (left is not None and _in_string_interp(left)) or (right is not None and _in_string_interp(right)):
            # whitespace inside an interpolation of a string is string content for nima (kept raw)
            continue
        seg = src[start:end]
        ctx = (left.type if left is not None else "^") + "|" + (right.type if right is not None else "$")
        if seg.strip(b" \t\r\n\f") != b"":
            seen("non-whitespace-gap", {"ctx": ctx, "seg": seg[:30].decode("utf-8", "replace")})
            continue
        if b"\t" in seg or b"\r" in seg or b"\f" in seg:
            seen("tab", {"ctx": ctx, "at": start})
        if left is None:
            if seg != b"":
                seen("leading-whitespace", {"seg": seg[:20].decode()})
            continue
        if b"\n" in seg:
            first_nl = seg.index(b"\n")
            if first_nl > 0:
                seen("trailing-whitespace", {"ctx": ctx, "at": start})
            inner = seg[first_nl:]
            lines = inner.split(b"\n")
            # lines[1:-1] are blank lines between; any with spaces = trailing whitespace on a blank line
            if any(ln != b"" for ln in lines[1:-1]):
                seen("trailing-whitespace", {"ctx": ctx, "at": start, "blank": True})
            if right is None:
                # end of file: text after last newline must be empty
                if lines[-1] != b"":
                    seen("trailing-whitespace", {"ctx": ctx, "at": start, "eof": True})
                if seg.count(b"\n") > 2:
                    seen("blank-lines", {"ctx": ctx, "n": seg.count(b"\n") - 1, "eof": True})
            elif seg.count(b"\n") > 2:
                seen("blank-lines", {"ctx": ctx, "n": seg.count(b"\n") - 1})
        else:
            if right is None:
                if seg != b"":
                    seen("trailing-whitespace", {"ctx": ctx, "eof": True})
            elif seg not in (b"", b" "):
                seen("multi-space", {"ctx": ctx, "seg": seg.decode()})
            if right is not None and right.type in (";", ":") and seg != b"":
                # `:` of a lambda / `;` of binding, with, assert, inherit
                seen("detached-" + ("semicolon" if right.type == ";" else "colon"), {"ctx": ctx, "at": start})
    # indentation of own-line comments: with the code line that follows them (when that line starts an expression or a
    # binding), two columns inside the closing delimiter that follows them, at column 0 after the last token of the file
    leaves = [n for n in cst.leaves(out_tree)]
    code = [n for n in leaves if n.type != "comment"]
    last_code_end = max((n.end_byte for n in code), default=0)
    for i, n in enumerate(leaves):
        if n.type != "comment" or _in_string_interp(n) or not src[n.start_byte : n.start_byte + 1] == b"#":
            continue  # (block comments keep their own inner layout; only `#` comments are judged)
        ls = src.rfind(b"\n", 0, n.start_byte) + 1
        if src[ls : n.start_byte].strip(b" ") != b"":
            continue  # not an own-line comment
        cind = n.start_byte - ls
        if n.start_byte >= last_code_end:
            if cind != 0:
                seen("comment-indent", {"rule": "after-last-token", "indent": cind, "comment": out_tree.s(n)[:30]})
            continue
        nxt = next((m for m in leaves[i + 1 :] if m.type != "comment"), None)
        if nxt is None or _in_string_interp(nxt):
            continue
        nls = src.rfind(b"\n", 0, nxt.start_byte) + 1
        if src[nls : nxt.start_byte].strip(b" ") != b"":
            continue  # the following token does not start its line
        if b"\n\n" in src[n.end_byte : nxt.start_byte]:
            continue  # separated by a blank line: may belong to what precedes
        nind = nxt.start_byte - nls
        # the line that follows starts a binding / inherit clause of a set or let, or an element of a list
        top = nxt
        while top.parent is not None and top.parent.start_byte == nxt.start_byte and top.parent.type not in ("binding_set", "list_expression", "source_code"):
            top = top.parent
        starts_item = top.parent is not None and top.parent.type in ("binding_set", "list_expression") and top.type not in ("[", "]", "{", "}")
        if starts_item:
            if cind != nind:
                seen("comment-indent", {"rule": "with-next-line", "indent": cind, "next": nind, "next_token": nxt.type, "comment": out_tree.s(n)[:30]})
        elif nxt.type in ("}", "]") and nxt.parent is not None and nxt.parent.type in ("attrset_expression", "rec_attrset_expression", "list_expression"):
            if cind != nind + 2:
                seen("comment-indent", {"rule": "inside-closer", "indent": cind, "closer": nind, "closer_token": nxt.type, "comment": out_tree.s(n)[:30]})
    # indentation of closing delimiters that start a line
    for n in cst.leaves(out_tree):
        if n.type in CLOSERS and not _in_string_interp(n):
            ls = src.rfind(b"\n", 0, n.start_byte) + 1
            if src[ls : n.start_byte].strip(b" ") != b"":
                continue  # not at line start
            if n.parent is None:
                continue
            if n.type == "}" and n.parent.type == "interpolation":
                continue
            opener = next((k for k in n.parent.children if k.type in OPENER_OF[n.type]), None)
            if opener is None:
                continue
            ols = src.rfind(b"\n", 0, opener.start_byte) + 1
            oind = len(src[ols : opener.start_byte]) - len(src[ols : opener.start_byte].lstrip(b" "))
            cind = n.start_byte - ls
            first_on_line = src[ols : opener.start_byte].strip(b" ") == b""
            # `or {` / `or [` / `or (` at the start of a line: the default of a select belongs to that line
            if not first_on_line and src[ols : opener.start_byte].strip(b" ") == b"or":
                first_on_line = True
            if first_on_line and oind != cind and ols != ls:
                seen("closer-indent", {"closer": n.type, "parent": n.parent.type, "opener_line_indent": oind, "closer_indent": cind})
    return fails
