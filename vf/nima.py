"""Adapter: imports nix_manipulator from the tree under test ($NIMA_REPO, default /repo)."""

from __future__ import annotations

import contextlib
import io
import os
import sys

REPO = os.path.abspath(os.environ.get("NIMA_REPO", "/repo"))
if sys.path[0] != REPO:
    sys.path.insert(0, REPO)

import nix_manipulator  # noqa: E402

_real = os.path.realpath(os.path.dirname(nix_manipulator.__file__))
if not _real.startswith(os.path.realpath(REPO) + os.sep):
    raise RuntimeError(f"nix_manipulator imported from {_real}, expected under {REPO}")

from nix_manipulator import parse, parse_file  # noqa: E402,F401
from nix_manipulator.cli.main import main as cli_main  # noqa: E402
from nix_manipulator.cli.manipulations import remove_value, set_value  # noqa: E402,F401
from nix_manipulator.exceptions import NixSyntaxError, ResolutionError  # noqa: E402,F401
from nix_manipulator import resolution as _resolution  # noqa: E402


def reset_state() -> None:
    """Reset the only process-global mutable state of the library."""
    _resolution._CONTEXTS.clear()


def rt(text: str) -> str:
    return parse(text).rebuild()


def cli(argv: list[str], stdin_text: str | None = None):
    """Run the CLI entry point in-process.  Returns (status, stdout, stderr, exception|None)."""
    out, err = io.StringIO(), io.StringIO()
    old_in = sys.stdin
    status = None
    exc = None
    try:
        sys.stdin = io.StringIO(stdin_text if stdin_text is not None else "")
        with contextlib.redirect_stdout(out), contextlib.redirect_stderr(err):
            try:
                status = cli_main(argv)
            except SystemExit as e:  # argparse errors
                status = e.code if isinstance(e.code, int) else 1
            except BaseException as e:  # noqa: BLE001 - reported to the oracle
                exc = e
    finally:
        sys.stdin = old_in
    return status, out.getvalue(), err.getvalue(), exc
