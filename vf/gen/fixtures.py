"""Static extraction of the Nix texts that the repository's tests assert to be nixfmt/RFC-0166 stable
(`validate_nixfmt_rfc(<text>)`), plus the formatted files under tests/nix-files.  Nothing is executed."""

from __future__ import annotations

import ast
import glob
import os
import textwrap


def _const(node, env):
    if isinstance(node, ast.Constant) and isinstance(node.value, str):
        return node.value
    if isinstance(node, ast.Name) and node.id in env:
        return env[node.id]
    if isinstance(node, ast.Call):
        f = node.func
        if isinstance(f, ast.Attribute) and f.attr in ("strip", "lstrip", "rstrip"):
            base = _const(f.value, env)
            if base is None:
                return None
            args = [_const(a, env) for a in node.args]
            if any(a is None for a in args):
                return None
            return getattr(base, f.attr)(*args)
        if isinstance(f, ast.Attribute) and f.attr == "dedent" and node.args:
            base = _const(node.args[0], env)
            return textwrap.dedent(base) if base is not None else None
        if isinstance(f, ast.Name) and f.id == "dedent" and node.args:
            base = _const(node.args[0], env)
            return textwrap.dedent(base) if base is not None else None
    return None


def extract(repo: str):
    """[(origin, text)] of upstream-asserted canonical texts."""
    out = []
    seen = set()
    for path in sorted(glob.glob(os.path.join(repo, "tests", "**", "*.py"), recursive=True)):
        try:
            tree = ast.parse(open(path, encoding="utf-8").read())
        except (SyntaxError, OSError):
            continue
        for fn in ast.walk(tree):
            if not isinstance(fn, (ast.FunctionDef, ast.AsyncFunctionDef)):
                continue
            env = {}
            for node in ast.walk(fn):
                if isinstance(node, ast.Assign) and len(node.targets) == 1 and isinstance(node.targets[0], ast.Name):
                    v = _const(node.value, env)
                    if v is not None:
                        env[node.targets[0].id] = v
            for node in ast.walk(fn):
                if isinstance(node, ast.Call) and isinstance(node.func, ast.Name) and node.func.id == "validate_nixfmt_rfc" and node.args:
                    v = _const(node.args[0], env)
                    if v is not None and v not in seen:
                        seen.add(v)
                        out.append((f"{os.path.relpath(path, repo)}::{fn.name}", v))
    for path in sorted(glob.glob(os.path.join(repo, "tests", "nix-files", "**", "*.nix"), recursive=True)):
        try:
            v = open(path, encoding="utf-8").read()
        except OSError:
            continue
        if v not in seen:
            seen.add(v)
            out.append((os.path.relpath(path, repo), v))
    return out
