"""Damage operators: turn a valid Nix text into (usually) erroneous text."""

from __future__ import annotations

import random

from vf import cst

INSERTS = ["{", "}", "(", ")", "[", "]", ";", "=", ",", ":", "@", "?", '"', "''", "${", "in", "let", "then", "else", "with", "assert", "inherit", "rec", "if", ".", "..", "...", "=>", "#", "/*", "*/", "\\", "'", "$", "|>", "é", "\x00", "﻿", "\t", "==", "!", "-", "or", "1e", "0x", "a b", "= ;"]
WS = ["", " ", "\n", "\n\n", "  ", "\t", " \n ", "\n  ", "\r\n", "\f"]


def damage(r: random.Random, text: str):
    """Return (new_text, operator name)."""
    toks = cst.tokens(text)
    op = r.choice(["delete", "delete", "dup", "insert", "insert", "swap", "truncate", "truncate", "unbalance", "replace"])
    if not toks:
        op = "insert"
    src = text
    if op == "delete":
        t = r.choice(toks)
        src = text.encode()[: t.start].decode("utf-8", "ignore") + text.encode()[t.end :].decode("utf-8", "ignore")
    elif op == "dup":
        t = r.choice(toks)
        b = text.encode()
        src = (b[: t.end] + b" " + b[t.start : t.end] + b[t.end :]).decode("utf-8", "ignore")
    elif op == "insert":
        pos = r.randint(0, len(text))
        src = text[:pos] + r.choice(["", " "]) + r.choice(INSERTS) + r.choice(["", " "]) + text[pos:]
    elif op == "swap" and len(toks) >= 2:
        i = r.randrange(len(toks) - 1)
        a, b2 = toks[i], toks[i + 1]
        b = text.encode()
        src = (b[: a.start] + b[b2.start : b2.end] + b[a.end : b2.start] + b[a.start : a.end] + b[b2.end :]).decode("utf-8", "ignore")
    elif op == "truncate":
        b = text.encode()
        cut = r.randint(0, max(0, len(b) - 1))
        src = b[:cut].decode("utf-8", "ignore")
    elif op == "unbalance":
        q = r.choice(['"', "''", "${", "(", "[", "{", "/*"])
        pos = r.randint(0, len(text))
        src = text[:pos] + q + text[pos:]
    elif op == "replace":
        t = r.choice(toks)
        b = text.encode()
        src = (b[: t.start] + r.choice(INSERTS).encode() + b[t.end :]).decode("utf-8", "ignore")
    lead = r.choice(WS) if r.random() < 0.5 else ""
    trail = r.choice(WS) if r.random() < 0.5 else ""
    return lead + src + trail, op
