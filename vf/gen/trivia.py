"""Trivia injection: perturb inter-token gaps of a valid Nix text with whitespace
and comment classes, keeping the code token sequence unchanged (verified)."""

from __future__ import annotations

import random
import re

from vf import cst

WS_CLASSES = ["none", "sp1", "spN", "tab", "nl", "nl_ind", "blank", "blankN", "blank_ws", "trail_nl"]
LINE_COMMENT_CLASSES = ["eol_line", "own_line", "own_lines2", "own_line_blank_after", "own_line_blank_before", "own_lines2_same", "own_line_wsblank_after", "own_line_wsblank_before"]
BLOCK_OWN_CLASSES = ["eol_block", "own_block", "own_doc", "own_mblock", "own_mblock_lead", "own_block2_same"]
MID_CLASSES = ["mid_block", "mid_doc", "mid_mblock", "mid_block_tight", "mid_block2", "mid_block_then_line", "eol_line_then_block"]
COMMENT_CLASSES = LINE_COMMENT_CLASSES + BLOCK_OWN_CLASSES + MID_CLASSES
ALL_CLASSES = WS_CLASSES + COMMENT_CLASSES

FAMILY = {}
for _c in WS_CLASSES:
    FAMILY[_c] = "ws"
for _c in LINE_COMMENT_CLASSES:
    FAMILY[_c] = "line"
for _c in BLOCK_OWN_CLASSES:
    FAMILY[_c] = "block"
for _c in MID_CLASSES:
    FAMILY[_c] = "mid"

_WORDINGS = ["{t}", "{t} note", "{t}: a = 1;", "{t} é→日本", "{t} * star", "{t}  two  spaces", "#{t}", "!{t}", "{t} \"q\" ''", "{t} ${{x}}", "{t}/path/*", "TODO({t}): fix"]


def label_str(label) -> str:
    return "/".join(label)


class Perturbation:
    __slots__ = ("gap_index", "label", "cls", "text", "ncomments")

    def __init__(self, gap_index, label, cls, text, ncomments):
        self.gap_index = gap_index
        self.label = label
        self.cls = cls
        self.text = text
        self.ncomments = ncomments

    def feature(self) -> str:
        return f"{label_str(self.label)}~{self.cls}"

    def to_json(self):
        return {"gap": self.gap_index, "label": list(self.label), "cls": self.cls, "text": self.text}


def _line_comment(r, tag, tight=False):
    w = r.choice(_WORDINGS).format(t=tag)
    style = r.random()
    if tight or style < 0.15:
        return "#" + w.replace(" ", "_") if tight else "#" + w
    if style < 0.25:
        return "# " + w + "  "  # trailing spaces
    if style < 0.3:
        return "#  " + w
    return "# " + w


def _block_comment(r, tag, doc=False, multi=False, lead=False, tight=False, indent=0):
    w = r.choice(_WORDINGS).format(t=tag).replace("*/", "* /")
    op = "/**" if doc else "/*"
    if tight:
        return f"{op}{w}*/" if not doc else f"{op} {w}*/"
    if not multi:
        pad = r.choice([" ", " ", "  "])
        return f"{op}{pad}{w}{pad}*/"
    pad = " " * indent
    second = r.choice(["more", "second line", "  indented more", "* starred", "é"])
    if lead:
        return f"{op}\n{pad}  {w}\n{pad}  {second} {tag}b\n{pad}*/"
    return f"{op} {w}\n{pad}   {second} {tag}b */"


def make_trivia(r: random.Random, cls: str, tag: str, indent: int):
    """Return (gap text, number of comments)."""
    ind = " " * indent
    if cls == "none":
        return "", 0
    if cls == "sp1":
        return " ", 0
    if cls == "spN":
        return " " * r.randint(2, 8), 0
    if cls == "tab":
        return r.choice(["\t", " \t", "\t\t ", " \t "]), 0
    if cls == "nl":
        return "\n", 0
    if cls == "nl_ind":
        return "\n" + " " * r.choice([1, 2, 3, 4, 6, 8, indent]), 0
    if cls == "blank":
        return "\n\n" + ind, 0
    if cls == "blankN":
        return "\n" * r.randint(3, 5) + ind, 0
    if cls == "blank_ws":
        return "\n  \n\t\n" + ind, 0
    if cls == "trail_nl":
        return "  \t\n" + ind, 0
    if cls == "eol_line":
        return " " + _line_comment(r, tag) + "\n" + ind, 1
    if cls == "own_line":
        return "\n" + ind + _line_comment(r, tag) + "\n" + ind, 1
    if cls == "own_lines2":
        return "\n" + ind + _line_comment(r, tag) + "\n" + ind + _line_comment(r, tag + "x") + "\n" + ind, 2
    if cls == "own_lines2_same":
        # two neighbouring comments with identical wording (rulers, `#` spacer lines, a doubled TODO)
        c = r.choice(["#", "# " + "-" * 10, _line_comment(r, tag)])
        return "\n" + ind + c + "\n" + ind + c + "\n" + ind, 2
    if cls == "own_block2_same":
        c = _block_comment(r, tag)
        return "\n" + ind + c + "\n" + ind + c + "\n" + ind, 2
    if cls == "own_line_wsblank_after":
        # the blank line after the comment carries spaces / a tab
        return "\n" + ind + _line_comment(r, tag) + "\n" + r.choice(["  ", "\t", " \t ", ind + "  "]) + "\n" + ind, 1
    if cls == "own_line_wsblank_before":
        return "\n" + r.choice(["  ", "\t", " \t ", ind + "  "]) + "\n" + ind + _line_comment(r, tag) + "\n" + ind, 1
    if cls == "own_line_blank_after":
        return "\n" + ind + _line_comment(r, tag) + "\n\n" + ind, 1
    if cls == "own_line_blank_before":
        return "\n\n" + ind + _line_comment(r, tag) + "\n" + ind, 1
    if cls == "eol_block":
        return " " + _block_comment(r, tag) + "\n" + ind, 1
    if cls == "own_block":
        return "\n" + ind + _block_comment(r, tag) + "\n" + ind, 1
    if cls == "own_doc":
        return "\n" + ind + _block_comment(r, tag, doc=True) + "\n" + ind, 1
    if cls == "own_mblock":
        return "\n" + ind + _block_comment(r, tag, multi=True, indent=indent) + "\n" + ind, 1
    if cls == "own_mblock_lead":
        return "\n" + ind + _block_comment(r, tag, multi=True, lead=True, indent=indent) + "\n" + ind, 1
    if cls == "mid_block":
        return " " + _block_comment(r, tag) + " ", 1
    if cls == "mid_doc":
        return " " + _block_comment(r, tag, doc=True) + " ", 1
    if cls == "mid_mblock":
        return " " + _block_comment(r, tag, multi=True, lead=r.random() < 0.5, indent=indent) + " ", 1
    if cls == "mid_block_tight":
        return _block_comment(r, tag, tight=True), 1
    if cls == "mid_block2":
        return " " + _block_comment(r, tag) + " " + _block_comment(r, tag + "x") + " ", 2
    if cls == "eol_line_then_block":
        # `tok # c` then `/* d */ next` on the following line: the block comment shares the line of the next token
        if r.random() < 0.5:
            # two line comments first (the second on a line of its own)
            return " " + _line_comment(r, tag) + "\n" + ind + _line_comment(r, tag + "y") + "\n" + ind + _block_comment(r, tag + "x") + " ", 3
        return " " + _line_comment(r, tag) + "\n" + ind + _block_comment(r, tag + "x") + " ", 2
    if cls == "mid_block_then_line":
        return " " + _block_comment(r, tag) + " " + _line_comment(r, tag + "x") + "\n" + ind, 2
    raise ValueError(cls)


def apply(text: str, gaps, perts) -> str:
    """Replace the chosen gaps of *text* (byte offsets from cst.code_gaps) by the perturbation texts."""
    src = text.encode("utf-8")
    out = []
    pos = 0
    by_gap = {p.gap_index: p for p in perts}
    for g in gaps:
        p = by_gap.get(g.index)
        if p is None:
            continue
        out.append(src[pos : g.start])
        out.append(p.text.encode("utf-8"))
        pos = g.end
    out.append(src[pos:])
    return b"".join(out).decode("utf-8")


def sound(base_tree, new_text: str, expected_comments: int):
    """Injection soundness: still valid, same code tokens, exactly the injected comments."""
    nt = cst.parse(new_text)
    if nt.root.has_error:
        return None
    if cst.token_keys(nt) != cst.token_keys(base_tree):
        return None
    if len(cst.comments(nt)) != expected_comments:
        return None
    return nt


def _indent_at(text_bytes: bytes, pos: int) -> int:
    ls = text_bytes.rfind(b"\n", 0, pos) + 1
    n = 0
    while ls + n < len(text_bytes) and text_bytes[ls + n : ls + n + 1] == b" ":
        n += 1
    return n


class Injector:
    """Chooses gaps and trivia classes.

    classes: allowed trivia classes; blocked(label_str, cls) -> bool lets a
    property's quarantine remove (gap label, class) pairs by construction.
    """

    def __init__(self, classes, blocked=None, allow_string_interp=True, weights=None, allow_attrpath=True, one_comment_per_construct=False):
        self.classes = list(classes)
        self.blocked = blocked or (lambda label, cls: False)
        self.allow_string_interp = allow_string_interp
        self.allow_attrpath = allow_attrpath
        self.one_comment_per_construct = one_comment_per_construct
        self.weights = weights
        self.excluded = 0

    def choose(self, r: random.Random, tree, mode: str | None = None):
        gaps = cst.code_gaps(tree)
        usable = [g for g in gaps if (self.allow_string_interp or not g.in_interp_of_string) and (self.allow_attrpath or not g.in_attrpath)]
        self.excluded += len(gaps) - len(usable) if not self.allow_attrpath else 0
        if not usable:
            return gaps, []
        if mode is None and len(usable) <= 8 and r.random() < 0.4:
            mode = "all"  # small programs: trivia in every gap at once (neighbouring constructs interact)
        if mode is None:
            x = r.random()
            mode = "one" if x < 0.5 else "adjacent" if x < 0.62 else "few" if x < 0.85 else "many" if x < 0.95 else "all"
        if mode == "one":
            k = 1
        elif mode in ("few", "adjacent"):
            k = r.randint(2, 3)
        elif mode == "many":
            k = max(1, len(usable) // 3)
        else:
            k = len(usable)
        k = min(k, len(usable))
        # stratify by label: draw labels first so rare labels are not drowned by frequent ones
        by_label: dict = {}
        for g in usable:
            by_label.setdefault(g.label, []).append(g)
        chosen = []
        if mode == "adjacent":
            # two or three neighbouring gaps (both sides of one operator, keyword or delimiter)
            start = r.choice(usable)
            near = [g for g in usable if 0 <= g.index - start.index <= r.choice([1, 1, 2])]
            chosen = near
        elif k >= len(usable):
            chosen = list(usable)
        else:
            labels = list(by_label)
            picked = set()
            attempts = 0
            while len(chosen) < k and attempts < 10 * k:
                attempts += 1
                lab = r.choice(labels)
                g = r.choice(by_label[lab])
                if g.index in picked:
                    continue
                picked.add(g.index)
                chosen.append(g)
        perts = []
        taken = []
        n = 0
        src = tree.src
        order = sorted(chosen, key=lambda g: g.index)
        if self.one_comment_per_construct and len(order) > 1:
            # under finding F24 only one of several neighbouring gaps may carry a comment: let every gap be that one
            # equally often instead of always the leftmost
            r.shuffle(order)
        for g in order:
            lab = label_str(g.label)
            cls = None
            for _ in range(6):
                c = r.choices(self.classes, weights=self.weights)[0] if self.weights else r.choice(self.classes)
                if c == "none" and g.end == g.start:
                    continue
                if self.blocked(lab, c):
                    self.excluded += 1
                    continue
                cls = c
                break
            if cls is None:
                continue
            if self.one_comment_per_construct:
                # finding F24: a comment interacts with other trivia inside the same construct instance / adjacent gaps
                near = [p for p, p_lca in taken if p_lca == g.lca_id or abs(p.gap_index - g.index) == 1]
                if near and (FAMILY[cls] != "ws" or any(FAMILY[p.cls] != "ws" for p in near)):
                    self.excluded += 1
                    continue
            tag = f"k{n}"
            txt, nc = make_trivia(r, cls, tag, _indent_at(src, g.start))
            if g.start == 0 and nc:
                # a comment at the very start of the file starts at offset 0 (leading
                # *whitespace* of the file is a separate class family, see finding F01)
                txt = txt.lstrip(" \n\t")
            # a line comment must not swallow the next token: make_trivia always ends it with \n
            perts.append(Perturbation(g.index, g.label, cls, txt, nc))
            taken.append((perts[-1], g.lca_id))
            n += nc if nc else 0
        perts.sort(key=lambda p: p.gap_index)
        return gaps, perts


def inject(r: random.Random, text: str, injector: Injector, mode: str | None = None, tree=None):
    """Return (new_text, perturbations, gaps, base_tree).  Unsound perturbations are dropped one by one."""
    base = tree or cst.parse(text)
    gaps, perts = injector.choose(r, base, mode)
    dropped = 0
    while perts:
        new = apply(text, gaps, perts)
        if sound(base, new, sum(p.ncomments for p in perts)) is not None:
            return new, perts, gaps, base, dropped
        # find offending perturbation(s): test individually, keep the sound ones
        keep = []
        for p in perts:
            if sound(base, apply(text, gaps, [p]), p.ncomments) is not None:
                keep.append(p)
            else:
                dropped += 1
        if len(keep) == len(perts):
            # individually sound but not jointly (adjacent effects): drop the last
            keep = keep[:-1]
            dropped += 1
        perts = keep
    return text, [], gaps, base, dropped


_TAG_RE = re.compile(r"k\d+x?b?")
