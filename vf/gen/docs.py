"""Editable-document generator: wrappers* around one core attribute set, printed in RFC-style layout.

Everything is drawn from a random.Random whose seed comes from Hypothesis.  The printed text is only
*claimed* canonical when nima reproduces it byte for byte (callers test that), so the printer never has
to out-guess the formatter.
"""

from __future__ import annotations

import copy
import random
from dataclasses import dataclass, field

NAMES = ["a", "b", "c", "pname", "version", "src", "meta", "foo"]
SCALARS = ['1', '2', '42', 'true', 'false', 'null', '"1.0"', '"hello"', '"a b"', './x', '[ ]', '[ 1 2 ]', '"${x}y"', 'x.y', 'f 1', '1 + 2', '(-1)', '0.5', '[ "a" ]', '{ }']
LEAF_VALUES = ['1', '2', '7', 'true', 'null', '"s"', '"1.2.3"', './p', '[ 1 ]', 'pkgs.hello', 'f x', '1 + 1', 'unboundName', 'fetchFromGitHub']


@dataclass
class Item:
    kind: str  # bind | inherit
    path: tuple = ()
    quoted: tuple = ()  # per segment: spelled quoted?
    value: object = None  # str (scalar text) | SetNode
    names: tuple = ()  # inherit names
    src: str | None = None
    before: list = field(default_factory=list)  # own-line comment lines
    eol: str | None = None
    blank_before: bool = False


@dataclass
class SetNode:
    items: list
    rec: bool = False
    inline: bool = False
    trailing: list = field(default_factory=list)  # own-line comments before the closing brace
    blank_before_close: bool = False  # a blank line in front of `}` / `in`


@dataclass
class Doc:
    wrappers: list  # outermost first: ("lambda", head) ("let", SetNode) ("with", env) ("assert", cond) ("paren",) ("call", head)
    core: SetNode
    header: list = field(default_factory=list)
    footer: list = field(default_factory=list)  # own-line comments behind the last token of the file
    final_newline: bool = True
    alias: tuple | None = None  # (name, via_call): the core set is bound to `name` by an innermost let and the body is `name` / `f name`


def _seg(name, q):
    return '"' + name + '"' if q else name


def render_set(s: SetNode, ind: int, out: list, as_let: bool = False):
    pad = " " * ind
    if not as_let:
        head = ("rec " if s.rec else "") + "{"
        if not s.items and not s.trailing:
            out[-1] += head + " }"
            return
        if s.inline and len(s.items) == 1 and not s.items[0].before and not s.items[0].eol and isinstance(s.items[0].value, str) and s.items[0].kind == "bind" and not s.trailing:
            it = s.items[0]
            out[-1] += head + " " + ".".join(_seg(n, q) for n, q in zip(it.path, it.quoted)) + " = " + it.value + "; }"
            return
        out[-1] += head
    ip = " " * (ind + 2)
    for it in s.items:
        if it.blank_before and out and not out[-1].rstrip().endswith(("{", "let")):
            out.append("")
        for c in it.before:
            out.append(ip + c)
        if it.kind == "inherit":
            line = ip + "inherit" + (f" ({it.src})" if it.src else "") + "".join(" " + n for n in it.names) + ";"
            out.append(line)
        else:
            name = ".".join(_seg(n, q) for n, q in zip(it.path, it.quoted))
            out.append(ip + name + " = ")
            if isinstance(it.value, SetNode):
                out[-1] = out[-1]  # `name = {`
                render_set(it.value, ind + 2, out)
                out[-1] += ";"
            else:
                out[-1] += it.value + ";"
        if it.eol:
            out[-1] += " " + it.eol
    for c in s.trailing:
        out.append(ip + c)
    if s.blank_before_close and s.items:
        out.append("")
    if not as_let:
        out.append(pad + "}")


def render(doc: Doc) -> str:
    out: list = list(doc.header)
    open_line = False  # True: the next construct continues on out[-1]

    def begin():
        nonlocal open_line
        if not open_line:
            out.append("")
        open_line = False

    for w in doc.wrappers:
        k = w[0]
        begin()
        if k == "lambda":
            head = w[1].split("\n")
            out[-1] += head[0]
            out.extend(head[1:])
            if len(w) > 3 and w[3]:
                out[-1] += " "  # the body starts on the line of the colon (`x: {`)
                open_line = True
            elif len(w) > 2 and w[2]:
                out.append("")  # blank line after the head
        elif k == "let":
            out[-1] += "let" + (" " + w[3] if len(w) > 3 and w[3] else "")
            render_set(w[1], 0, out, as_let=True)
            out.append("in")
            # trivia between this layer's `in` and what it encloses
            if len(w) > 2 and w[2] == "blank":
                out.append("")
            elif len(w) > 2 and w[2]:
                out.append(w[2])
        elif k in ("with", "assert"):
            out[-1] += f"{k} {w[1]};"
            # trivia between the statement and what it wraps
            if len(w) > 2 and w[2] == "blank":
                out.append("")
            elif len(w) > 2 and w[2]:
                out.append(w[2])
        elif k == "paren":
            out[-1] += "("
            open_line = True
        elif k == "call":
            out[-1] += w[1] + " "
            open_line = True
    begin()
    if doc.alias:
        name, via_call = doc.alias[:2]
        hop = doc.alias[2] if len(doc.alias) > 2 else None
        out[-1] += "let"
        if hop:
            # two hops: `name = defaults0;` next to `defaults0 = { … };`; with "shadowed" an inner layer binds
            # `defaults0` again — lexical scoping still designates the one next to the alias
            first = [("  defaults0 = ", True), ("  " + name + " = defaults0;", False)]
            if hop.endswith("-rev"):
                first.reverse()
            for txt, is_set in first:
                out.append(txt)
                if is_set:
                    render_set(doc.core, 2, out)
                    out[-1] += ";"
            out.append("in")
            if hop.startswith("shadowed"):
                out += ["let", "  defaults0 = { w0 = 2; };", "in"]
        else:
            out.append("  " + name + " = ")
            render_set(doc.core, 2, out)
            out[-1] += ";"
            out.append("in")
        out.append(("f " if via_call else "") + name)
    else:
        render_set(doc.core, 0, out)
    out[-1] += "".join(")" for w in doc.wrappers if w[0] == "paren")
    out.extend(doc.footer)
    return "\n".join(out) + ("\n" if doc.final_newline else "")


# ---------------------------------------------------------------------------


class DocGen:
    def __init__(self, seed: int, *, comments=True, wrappers=True, max_lets=3, attrpaths=True, nested=True, quoted=True, inherits=True, refs=False,
                 nested_families=True, with_ident_env=True, lets_anywhere=True, let_before_call=True, trailing_comments=True, after_in_trivia=True, mixed_roots=True, aliases=True, alias_hops=True, blank_close=True, footers=True):
        self.r = random.Random(seed)
        self.comments = comments
        self.wrappers = wrappers
        self.max_lets = max_lets
        self.attrpaths = attrpaths
        self.nested = nested
        self.quoted = quoted
        self.inherits = inherits
        self.refs = refs
        self.nested_families = nested_families
        self.with_ident_env = with_ident_env
        self.lets_anywhere = lets_anywhere
        self.let_before_call = let_before_call
        self.trailing_comments = trailing_comments
        self.after_in_trivia = after_in_trivia
        self.mixed_roots = mixed_roots
        self.aliases = aliases
        self.alias_hops = alias_hops
        self.blank_close = blank_close
        self.footers = footers
        self.n = 0
        self._depth0 = True

    def comment(self):
        self.n += 1
        return self.r.choice([f"# note {self.n}", f"# TODO {self.n}", f"# c{self.n}: x = 1;"])

    def leaf(self):
        return self.r.choice(LEAF_VALUES)

    def set_node(self, depth, names=None, allow_empty=True, top=True):
        r = self.r
        attrpaths = self.attrpaths and (top or self.nested_families)
        n = r.choice([0, 1, 2, 3, 3, 4, 5]) if allow_empty else r.choice([1, 2, 3, 4])
        pool = list(names or NAMES)
        r.shuffle(pool)
        items = []
        used = set()
        fam_roots = set()
        while len(items) < n and pool:
            name = pool.pop()
            if name in used:
                continue
            x = r.random()
            if attrpaths and x < 0.2:
                # attrpath family: 1-3 members, possibly interleaved later
                members = r.randint(1, 3)
                subs = r.sample(["x", "y", "z", "enable", "k"], members)
                for sname in subs:
                    if r.random() < 0.25:
                        third = r.choice(["p", "q"])
                        items.append(Item("bind", (name, sname, third), (False, False, False), self.leaf()))
                        if r.random() < 0.5:
                            # a second member below the same two-segment prefix (`a.b.p`, `a.b.q`)
                            items.append(Item("bind", (name, sname, "q" if third == "p" else "p"), (False, False, False), self.leaf()))
                    else:
                        items.append(Item("bind", (name, sname), (False, False), self.leaf()))
                fam_roots.add(name)
            elif self.nested and depth > 0 and x < 0.42:
                sub = self.set_node(depth - 1, names=["x", "y", "z", "enable", "k", "a"], top=False)
                sub.inline = r.random() < 0.3
                items.append(Item("bind", (name,), (False,), sub))
            elif self.inherits and x < 0.5:
                nm = r.sample(["lib", "stdenv", "fetchurl", "q1", "q2"], r.randint(1, 2))
                items.append(Item("inherit", names=tuple(nm), src=r.choice([None, None, "pkgs"])))
            elif self.quoted and x < 0.58:
                qn = r.choice(["foo-bar", "a.b", "x y", "1st"])
                if qn not in used:
                    used.add(qn)
                    items.append(Item("bind", (qn,), (True,), self.leaf()))
            else:
                items.append(Item("bind", (name,), (False,), self.leaf()))
            used.add(name)
        # look-alike leaves: the same last segment and value under another root (`services.enable = true;
        # programs.enable = true;`) — bindings that are equal by value but not the same binding
        fams = [it for it in items if it.kind == "bind" and len(it.path) == 2 and isinstance(it.value, str)]
        if attrpaths and fams and pool and r.random() < 0.3:
            src = r.choice(fams)
            other = pool.pop()
            if other not in used:
                used.add(other)
                fam_roots.add(other)
                items.insert(r.randrange(len(items) + 1), Item("bind", (other, src.path[1]), (False, False), src.value))
        # interleave: optionally move one family member to the end (non-adjacent family)
        if fam_roots and r.random() < 0.3 and len(items) > 2:
            idx = next((i for i, it in enumerate(items) if it.kind == "bind" and len(it.path) > 1), None)
            if idx is not None:
                items.append(items.pop(idx))
        if self.comments:
            for it in items:
                if r.random() < 0.18:
                    it.before.append(self.comment())
                if r.random() < 0.12:
                    it.eol = self.comment()
                if r.random() < 0.15:
                    it.blank_before = True
        s = SetNode(items, rec=(r.random() < 0.15))
        if self.comments and self.trailing_comments and items and r.random() < 0.08:
            s.trailing.append(self.comment())
        if self.blank_close and items and not s.inline and r.random() < 0.05:
            s.blank_before_close = True
        return s

    def with_env(self):
        r = self.r
        lit = ["{ q = 1; }", "{ helper = 2; lib = 3; }", "rec { q = 1; }"]
        if self.with_ident_env and r.random() < 0.6:
            return r.choice(["pkgs", "lib", "import ./x.nix"])
        return r.choice(lit)

    def let_node(self):
        r = self.r
        names = r.sample(["v", "w", "a", "version", "helper"], r.randint(1, 3))
        items = []
        for nm in names:
            if self.attrpaths and r.random() < 0.15:
                items.append(Item("bind", (nm, r.choice(["x", "y"])), (False, False), self.leaf()))
            elif self.nested and r.random() < 0.15:
                items.append(Item("bind", (nm,), (False,), SetNode([Item("bind", ("k",), (False,), self.leaf())], inline=True)))
            else:
                items.append(Item("bind", (nm,), (False,), self.leaf()))
        if self.quoted and r.random() < 0.12:
            # a name that must be quoted and contains the selector character
            items.insert(r.randrange(len(items) + 1), Item("bind", (r.choice(["user@host", "@x", "a@"]),), (True,), self.leaf()))
        if self.inherits and r.random() < 0.25:
            inh = Item("inherit", names=tuple(r.sample(["lib", "stdenv", "q1"], r.randint(1, 2))), src=r.choice([None, "pkgs"]))
            items.insert(r.randint(0, len(items)), inh)
        if self.comments:
            for it in items:
                if r.random() < 0.15:
                    it.before.append(self.comment())
                if r.random() < 0.1:
                    it.eol = self.comment()
        return SetNode(items, blank_before_close=self.blank_close and r.random() < 0.05)

    def doc(self) -> Doc:
        r = self.r
        wrappers = []
        if self.wrappers:
            shape = r.choice(["bare", "bare", "lambda", "lambda", "call", "lambda-call", "with", "assert", "paren", "lambda-with", "lambda-assert", "mixed"])
            heads = ["{ pkgs }:", "{ pkgs, lib }:", "{\n  stdenv,\n  fetchurl,\n  ...\n}:", "x:", "args@{ pkgs, ... }:", "{ }:"]
            calls = ["stdenv.mkDerivation", "f", "mkShell", "pkgs.buildEnv", "stdenv.mkDerivation rec", "f a", "(f) a", "(f a) b", "(lib.makeOverridable stdenv.mkDerivation) extra", "(f)", "((f))", "f (g 1)", "(f a b) c"]
            if shape in ("lambda", "lambda-call", "lambda-with", "lambda-assert", "mixed"):
                head = r.choice(heads)
                inline_body = "\n" not in head and r.random() < 0.15
                wrappers.append(("lambda", head, r.random() < 0.4, inline_body))
            if shape == "with" or shape == "lambda-with":
                wrappers.append(("with", self.with_env()))
            if shape == "assert" or shape == "lambda-assert":
                wrappers.append(("assert", r.choice(["true", "x != null", "lib.versionAtLeast v \"1\""])))
            if shape == "paren":
                wrappers.append(("paren",))
            if shape in ("call", "lambda-call"):
                wrappers.append(("call", r.choice(calls)))
            if shape == "mixed":
                for _ in range(r.randint(1, 2)):
                    wrappers.append(r.choice([("with", self.with_env()), ("assert", "true"), ("call", "f")]))
                    if wrappers[-1][0] == "call":
                        break
            if self.after_in_trivia:
                for i, w in enumerate(wrappers):
                    if w[0] in ("with", "assert") and len(w) == 2:
                        x = r.random()
                        wrappers[i] = w + (("blank" if x < 0.15 else self.comment() if x < 0.3 and self.comments else None),)
            # let layers at random positions (never after a call head: `f let … in { }` is not valid Nix)
            nlets = r.choice([0, 0, 0, 1, 1, 2, 3]) if self.max_lets else 0
            nlets = min(nlets, self.max_lets)
            for _ in range(nlets):
                positions = [i for i in range(len(wrappers) + 1) if not (i > 0 and wrappers[i - 1][0] == "call")]
                if not self.lets_anywhere:
                    # only directly in front of the core set (or of lets that are)
                    tail = len(wrappers)
                    while tail > 0 and wrappers[tail - 1][0] == "let":
                        tail -= 1
                    positions = [i for i in positions if i >= tail]
                if not positions:
                    break
                # bias: directly in front of the core when allowed
                pos = positions[-1] if r.random() < 0.6 else r.choice(positions)
                after = None
                if self.after_in_trivia:
                    x = r.random()
                    after = "blank" if x < 0.2 else (self.comment() if x < 0.35 and self.comments else None)
                prev = [w for w in wrappers if w[0] == "let"]
                # now and then a layer with exactly the content of another one ("layers are never confused whatever their contents")
                node = copy.deepcopy(r.choice(prev)[1]) if prev and r.random() < 0.2 else self.let_node()
                let_comment = self.comment() if self.comments and self.after_in_trivia and r.random() < 0.12 else None
                wrappers.insert(pos, ("let", node, after, let_comment))
        core = self.set_node(2)
        if wrappers and wrappers[-1][0] == "call" and wrappers[-1][1].endswith(" rec"):
            core.rec = False
        if self.mixed_roots and self.attrpaths and r.random() < 0.08:
            # valid but unusual: a root defined by an explicit set *and* by an attrpath binding (`a = { … }; a.zq = 2;`)
            roots = [it for it in core.items if it.kind == "bind" and len(it.path) == 1 and isinstance(it.value, SetNode) and not it.quoted[0] and not it.value.rec and all(x.kind != "bind" or x.path[0] != "zq" for x in it.value.items)]
            if roots:
                core.items.append(Item("bind", (r.choice(roots).path[0], "zq"), (False, False), "2"))
        header = []
        if self.comments and r.random() < 0.2:
            header = [self.comment()]
        alias = None
        if self.aliases and r.random() < 0.1:
            # the editable set is reached through a name: `let args = { … }; in f args`, possibly shadowing an outer `args`
            while wrappers and wrappers[-1][0] == "call":
                wrappers.pop()
            alias = (r.choice(["args", "attrs", "cfg"]), r.random() < 0.5)
            if self.alias_hops and r.random() < 0.4:
                alias += (r.choice(["same", "same-rev", "shadowed", "shadowed-rev"]),)
            if r.random() < 0.35:
                decoy = SetNode([Item("bind", (alias[0],), (False,), SetNode([Item("bind", ("decoy",), (False,), "1")], inline=True))])
                positions = [i for i in range(len(wrappers) + 1) if not (i > 0 and wrappers[i - 1][0] == "call")]
                wrappers.insert(r.choice(positions), ("let", decoy, None, None))
        footer = []
        if self.comments and self.footers and r.random() < 0.08:
            footer = [self.comment() for _ in range(r.choice([1, 1, 2]))]
        return Doc(wrappers, core, header, footer=footer, final_newline=r.random() < 0.85, alias=alias)


def make(seed: int, **kw):
    g = DocGen(seed, **kw)
    d = g.doc()
    return d, render(d)
