"""Hypothesis strategies for Nix programs over the full expression grammar.

The AST is made of plain tuples ``(kind, ...)``.  ``render(ast, broken)`` prints
it either flat (single spaces) or broken over lines; parentheses are inserted
where the grammar requires them.  The printer does not try to be pretty: layout
variety comes from vf.gen.trivia, which perturbs the gaps afterwards.
"""

from __future__ import annotations

import random

# precedence levels (smaller binds tighter)
L_SIMPLE, L_SELECT, L_APP, L_NEG, L_HAS, L_CONCAT, L_MUL, L_ADD, L_NOT, L_UPDATE, L_CMP, L_EQ, L_AND, L_OR, L_IMPL = range(15)
L_WEAK = 20

BINOPS = {
    "++": (L_CONCAT, "right"),
    "*": (L_MUL, "left"),
    "/": (L_MUL, "left"),
    "+": (L_ADD, "left"),
    "-": (L_ADD, "left"),
    "//": (L_UPDATE, "right"),
    "<": (L_CMP, "none"),
    "<=": (L_CMP, "none"),
    ">": (L_CMP, "none"),
    ">=": (L_CMP, "none"),
    "==": (L_EQ, "none"),
    "!=": (L_EQ, "none"),
    "&&": (L_AND, "left"),
    "||": (L_OR, "left"),
    "->": (L_IMPL, "right"),
}

KEYWORDS = {"let", "in", "with", "assert", "if", "then", "else", "rec", "inherit", "or"}

GLUE = object()  # no whitespace allowed between neighbours (string content)
NOBR_ON = object()  # suppress line-break hints (flat rendering) until NOBR_OFF
NOBR_OFF = object()


class BR:
    """Line-break hint between two tokens; delta changes the indent level first."""

    __slots__ = ("delta",)

    def __init__(self, delta=0):
        self.delta = delta


def level(e) -> int:
    k = e[0]
    if k in ("int", "float", "id", "str", "istr", "path", "uri", "paren", "set", "list"):
        return L_SIMPLE
    if k == "select":
        return L_SELECT
    if k == "app":
        return L_APP
    if k == "neg":
        return L_NEG
    if k == "has":
        return L_HAS
    if k == "not":
        return L_NOT
    if k == "bin" or k == "chain":
        return BINOPS[e[1]][0]
    if k in ("lambda", "let", "with", "assert", "if"):
        return L_WEAK
    raise ValueError(k)


def _emit(e, maxlevel, out):
    if level(e) > maxlevel:
        out.append("(")
        _emit_raw(e, out)
        out.append(")")
    else:
        _emit_raw(e, out)


def _emit_string(parts, out, quote):
    out.append(quote)
    for p in parts:
        out.append(GLUE)
        if p[0] == "frag":
            out.append(p[1])
        else:  # interp
            out.append("${")
            _emit(p[1], L_WEAK, out)
            out.append("}")
    out.append(GLUE)
    out.append(quote)


def _emit_attrseg(seg, out):
    if seg[0] == "name":
        out.append(seg[1])
    elif seg[0] == "qname":
        _emit_string(seg[1], out, '"')
    else:  # dyn: rendered flat (nima keeps attrpath text raw, see finding F06)
        out.append("${")
        out.append(NOBR_ON)
        _emit(seg[1], L_WEAK, out)
        out.append(NOBR_OFF)
        out.append("}")


def _emit_attrpath(segs, out):
    for i, s in enumerate(segs):
        if i:
            out.append(GLUE)
            out.append(".")
            out.append(GLUE)
        _emit_attrseg(s, out)


def _emit_bindings(items, out):
    for it in items:
        out.append(BR(0))
        if it[0] == "bind":
            _emit_attrpath(it[1], out)
            out.append("=")
            _emit(it[2], L_WEAK, out)
            out.append(GLUE)
            out.append(";")
        elif it[0] == "inherit":
            out.append("inherit")
            if it[1] is not None:
                out.append("(")
                _emit(it[1], L_WEAK, out)
                out.append(")")
            for nm in it[2]:
                _emit_attrseg(nm, out)
            out.append(GLUE)
            out.append(";")


def _emit_raw(e, out):
    k = e[0]
    if k == "uri":
        out.extend(["(", e[1], ")"])
    elif k in ("int", "float", "id", "path"):
        out.append(e[1])
    elif k == "str":
        _emit_string(e[1], out, '"')
    elif k == "istr":
        _emit_string(e[1], out, "''")
    elif k == "paren":
        out.append("(")
        _emit(e[1], L_WEAK, out)
        out.append(")")
    elif k == "list":
        out.append("[")
        if e[1]:
            out.append(BR(+1))
            for i, x in enumerate(e[1]):
                if i:
                    out.append(BR(0))
                _emit(x, L_SELECT, out)
            out.append(BR(-1))
        out.append("]")
    elif k == "set":
        if e[1]:
            out.append("rec")
        out.append("{")
        if e[2]:
            out.append(BR(+1))
            first = len(out)
            _emit_bindings(e[2], out)
            del out[first]  # drop the first BR(0): BR(+1) already broke the line
            out.append(BR(-1))
        out.append("}")
    elif k == "select":
        spaced = e[1][0] == "path" and len(str(e[1])) % 2 == 0 and not str(e[1][1]).startswith("<")
        if spaced:
            # `./a .b`: a select from a path literal needs the space (`./a.b` is another path)
            _emit_raw(e[1], out)
        elif e[1][0] in ("int", "float", "path", "uri"):
            out.append("(")
            _emit_raw(e[1], out)
            out.append(")")
        else:
            _emit(e[1], L_SIMPLE, out)
        if not spaced:
            out.append(GLUE)
        out.append(".")
        out.append(GLUE)
        _emit_attrpath(e[2], out)
        if e[3] is not None:
            out.append("or")
            _emit(e[3], L_SELECT, out)
    elif k == "app":
        _emit(e[1], L_APP, out)
        _emit(e[2], L_SELECT, out)
    elif k == "neg":
        out.append("-")
        _emit(e[1], L_NEG, out)
    elif k == "not":
        out.append("!")
        _emit(e[1], L_NOT, out)
    elif k == "has":
        _emit(e[1], L_NEG, out)
        out.append("?")
        _emit_attrpath(e[2], out)
    elif k == "bin":
        lv, assoc = BINOPS[e[1]]
        _emit(e[2], lv if assoc == "left" else lv - 1, out)
        out.append(e[1])
        _emit(e[3], lv if assoc == "right" else lv - 1, out)
    elif k == "chain":
        lv, _assoc = BINOPS[e[1]]
        for i, operand in enumerate(e[2]):
            if i:
                if e[3]:
                    out.append(BR(0))
                out.append(e[1])
            _emit(operand, lv - 1, out)
    elif k == "lambda":
        head = e[1]
        if head[0] == "ident":
            out.append(head[1])
            out.append(GLUE)
            out.append(":")
        else:
            _, at_before, formals, ellipsis, at_after = head
            if at_before:
                out.append(at_before)
                out.append(GLUE)
                out.append("@")
                out.append(GLUE)
            out.append("{")
            n = 0
            for name, default in formals:
                if n:
                    out.append(GLUE)
                    out.append(",")
                out.append(name)
                if default is not None:
                    out.append("?")
                    _emit(default, L_WEAK, out)
                n += 1
            if ellipsis:
                if n:
                    out.append(GLUE)
                    out.append(",")
                out.append("...")
            out.append("}")
            if at_after:
                out.append(GLUE)
                out.append("@")
                out.append(GLUE)
                out.append(at_after)
            out.append(GLUE)
            out.append(":")
        out.append(BR(0))
        _emit(e[2], L_WEAK, out)
    elif k == "let":
        out.append("let")
        if e[1]:
            out.append(BR(+1))
            first = len(out)
            _emit_bindings(e[1], out)
            del out[first]
            out.append(BR(-1))
        out.append("in")
        out.append(BR(0))
        _emit(e[2], L_WEAK, out)
    elif k == "with":
        out.append("with")
        _emit(e[1], L_WEAK, out)
        out.append(GLUE)
        out.append(";")
        out.append(BR(0))
        _emit(e[2], L_WEAK, out)
    elif k == "assert":
        out.append("assert")
        _emit(e[1], L_WEAK, out)
        out.append(GLUE)
        out.append(";")
        out.append(BR(0))
        _emit(e[2], L_WEAK, out)
    elif k == "if":
        out.append("if")
        _emit(e[1], L_WEAK, out)
        out.append(BR(0))
        out.append("then")
        _emit(e[2], L_WEAK, out)
        out.append(BR(0))
        out.append("else")
        _emit(e[3], L_WEAK, out)
    else:
        raise ValueError(k)


def render(ast, broken: bool = False) -> str:
    items: list = []
    _emit(ast, L_WEAK, items)
    parts: list[str] = []
    indent = 0
    pending = " "
    first = True
    nobr = 0
    for it in items:
        if it is GLUE:
            pending = ""
            continue
        if it is NOBR_ON:
            nobr += 1
            continue
        if it is NOBR_OFF:
            nobr -= 1
            continue
        if isinstance(it, BR):
            indent = max(0, indent + it.delta)
            if broken and not nobr:
                pending = "\n" + "  " * indent
            continue
        if not first:
            parts.append(pending)
        parts.append(it)
        pending = " "
        first = False
    return "".join(parts)


# ---------------------------------------------------------------------------
# generation (a plain recursive generator driven by random.Random; the seed of
# that Random is the only thing drawn from Hypothesis, which keeps generation at
# ~0.2 ms per program instead of ~300 ms with a deeply recursive strategy)

_ID_START = "abcdefghijklmnopqrstuvwxyzABCDEFGHIJKLMNOPQRSTUVWXYZ_"
_ID_REST = _ID_START + "0123456789'-"

NAME_POOL = ["a", "b", "c", "x", "y", "foo", "bar", "pkgs", "lib", "version", "src", "meta", "self", "x'", "a-b", "_z", "f", "g", "import", "builtins", "true", "false", "null", "or'"]
CONSTS = ("true", "false", "null", "import")

_PATHS = ["./a", "./a/b.nix", "../x", "../../p/q-r_s", "/abs/path", "/etc/nixos/configuration.nix", "~/home", "~/a.b/c", "./.", "./..", "a/b", "foo/bar.nix", "<nixpkgs>", "<nixpkgs/lib>", "./a+b"]
_FLOATS = ["1.5", "0.5", ".5", "3.14159", "1.5e10", "1.5e-3", "2.0E+3", "0.0", "123.456e7", ".5e3"]
_URIS = ["http://example.org/a?b=c", "mailto:x@y.z", "https://a.b/c.tar.gz"]
_STR_ATOMS = list("abcxyz019 _-.,:;/=+*#()[]{}<>@!?&|~^%'") + ["é", "ß", "→", "日本", "\n", "\t", "  ", "''", "$", "$$", "\\n", "\\\\", '\\"', "\\${", "\\t", "\\r", "\\x", "# no comment", "/* no */"]
_ISTR_ATOMS = list("abcxyz019 _-.,:;/=+*#()[]{}<>@!?&|~^%\"\\") + ["é", "→", "\n", "\n  ", "\n    ", "\t", "'''", "''$", "''\\n", "''\\t", "$$", "# c", "/* c */", "\\n"]
_SIMPLE_ATOMS = list("abcxyz01 -_.") + ["é", "\\n", '\\"', "\\\\", "\\${", "$"]


class Gen:
    def __init__(self, seed: int, budget: int = 12, include_uri: bool = False, empty_let: bool = True, merge_pairs: bool = True):
        self.r = random.Random(seed)
        self.budget = budget
        self.include_uri = include_uri
        self.empty_let = empty_let
        self.merge_pairs = merge_pairs

    # -- names
    def ident(self) -> str:
        r = self.r
        if r.random() < 0.8:
            return r.choice(NAME_POOL)
        while True:
            s = r.choice(_ID_START) + "".join(r.choice(_ID_REST) for _ in range(r.randint(0, 6)))
            if s not in KEYWORDS and not s.endswith("-"):
                return s

    def plain_name(self) -> str:
        while True:
            s = self.ident()
            if s not in CONSTS:
                return s

    # -- strings
    def _frag(self, atoms, istr: bool, before_interp: bool) -> str:
        r = self.r
        s = "".join(r.choice(atoms) for _ in range(r.randint(0, 6)))
        s = s.replace("${", "$ {")
        if istr:
            s = s.replace("''''", "''' ")
            while s.endswith("'") or s.endswith("$") or s.endswith("\\"):
                s += " "
        else:
            # no lone trailing backslash
            n = len(s) - len(s.rstrip("\\"))
            if n % 2 == 1:
                s += "\\"
            if before_interp and s.endswith("$"):
                s += " "
        return s

    def string_parts(self, istr: bool, allow_interp: bool = True):
        r = self.r
        atoms = _ISTR_ATOMS if istr else _STR_ATOMS
        n = r.randint(0, 4)
        kinds = ["interp" if (allow_interp and r.random() < 0.3) else "frag" for _ in range(n)]
        out = []
        for i, kd in enumerate(kinds):
            if kd == "interp":
                out.append(("interp", self.expr()))
            else:
                nxt = i + 1 < n and kinds[i + 1] == "interp"
                s = self._frag(atoms, istr, nxt)
                if not s:
                    continue
                if out and out[-1][0] == "frag":
                    j = (out[-1][1] + s).replace("${", "$ {")
                    if istr:
                        j = j.replace("''''", "''' ")
                    out[-1] = ("frag", j)
                else:
                    out.append(("frag", s))
        # final fix-ups on merged fragments
        fixed = []
        for i, p in enumerate(out):
            if p[0] == "frag":
                s = p[1]
                nxt = i + 1 < len(out) and out[i + 1][0] == "interp"
                if istr:
                    while s.endswith("'") or s.endswith("$"):
                        s += " "
                elif nxt and s.endswith("$"):
                    s += " "
                fixed.append(("frag", s))
            else:
                fixed.append(p)
        return tuple(fixed)

    def simple_string_parts(self):
        r = self.r
        s = "".join(r.choice(_SIMPLE_ATOMS) for _ in range(r.randint(0, 5))).replace("${", "$ {")
        n = len(s) - len(s.rstrip("\\"))
        if n % 2 == 1:
            s += "\\"
        return (("frag", s),) if s else ()

    # -- attr paths
    def attrseg(self, dynamic: bool = True):
        r = self.r
        x = r.random()
        if x < 0.74:
            return ("name", self.plain_name())
        if x < 0.94 or not dynamic:
            return ("qname", self.simple_string_parts())
        return ("dyn", self.expr())

    def attrsegs(self, dynamic: bool = True):
        n = self.r.choice([1, 1, 1, 2, 2, 3])
        segs = [self.attrseg(dynamic) for _ in range(n)]
        if n >= 2 and self.r.random() < 0.08:
            # multi-byte characters in a quoted segment that is followed by further segments (byte and character
            # offsets of the later dots differ)
            segs[self.r.randrange(n - 1)] = ("qname", (("frag", self.r.choice(["café", "日本", "naïve→x", "ß", "éé é"])),))
            if segs[-1][0] == "name" and len(segs[-1][1]) < 4:
                segs[-1] = ("name", segs[-1][1] + "Enable")
        return tuple(segs)

    def bindings(self, max_size: int = 5):
        r = self.r
        items = []
        for _ in range(r.randint(0, max_size)):
            if r.random() < 0.78:
                items.append(("bind", self.attrsegs(), self.expr()))
            else:
                src = self.expr() if r.random() < 0.4 else None
                names = tuple(
                    ("name", self.plain_name()) if r.random() < 0.8 else ("qname", self.simple_string_parts()) for _ in range(r.randint(1, 3))
                )
                items.append(("inherit", src, names))
        items = _dedupe_bindings(items)
        if r.random() < 0.05 and self.merge_pairs and not any(it[0] == "bind" and _seg_key(it[1][0]) == "mrg" for it in items):
            # the same dotted name defined twice with set literals (valid Nix: the sets are merged), one of them
            # holding an inherit clause
            head = (("name", "mrg"), ("name", r.choice(["a", "cfg"])))
            first = ("set", False, (("inherit", None if r.random() < 0.5 else ("id", "src0"), (("name", "inh0"),)), ("bind", (("name", "p0"),), self.leaf())))
            second = ("set", False, (("bind", (("name", "q0"),), self.leaf()),) + ((("inherit", ("id", "src1"), (("name", "inh1"),)),) if r.random() < 0.4 else ()))
            pair = [("bind", head, first), ("bind", head, second)]
            if r.random() < 0.5:
                pair.reverse()
            items = items + tuple(pair)
        return items

    def lambda_head(self):
        r = self.r
        if r.random() < 0.4:
            return ("ident", self.plain_name())
        seen = set()
        formals = []
        for _ in range(r.randint(0, 4)):
            n = self.plain_name()
            if n in seen:
                continue
            seen.add(n)
            formals.append((n, self.expr() if r.random() < 0.3 else None))
        ell = r.random() < 0.5
        at = self.plain_name() if r.random() < 0.3 else None
        if at is None:
            return ("formals", None, tuple(formals), ell, None)
        if r.random() < 0.5:
            return ("formals", at, tuple(formals), ell, None)
        return ("formals", None, tuple(formals), ell, at)

    # -- expressions
    def leaf(self):
        r = self.r
        x = r.random()
        if x < 0.2:
            c = r.random()
            if c < 0.6:
                return ("int", str(r.randint(0, 20)))
            if c < 0.8:
                return ("int", str(r.randint(0, 2**62)))
            return ("int", r.choice(["0", "00", "007", "0123", "9223372036854775807"]))
        if x < 0.5:
            return ("id", self.ident())
        if x < 0.62:
            return ("str", self.simple_string_parts())
        if x < 0.7:
            return ("float", r.choice(_FLOATS))
        if x < 0.8:
            return ("path", r.choice(_PATHS))
        if x < 0.86:
            return ("set", False, ())
        if x < 0.9:
            return ("list", ())
        if self.include_uri and x < 0.93:
            return ("uri", r.choice(_URIS))
        return ("id", self.ident())

    def expr(self):
        r = self.r
        if self.budget <= 0 or r.random() < 0.25:
            return self.leaf()
        self.budget -= 1
        k = r.choice(_COMPOUND)
        if k == "paren":
            return ("paren", self.expr())
        if k == "list":
            return ("list", tuple(self.expr() for _ in range(r.randint(1, 4))))
        if k == "set":
            return ("set", r.random() < 0.25, self.bindings())
        if k == "select":
            return ("select", self.expr(), self.attrsegs(), self.expr() if r.random() < 0.3 else None)
        if k == "app":
            return ("app", self.expr(), self.expr())
        if k == "neg":
            return ("neg", self.expr())
        if k == "not":
            return ("not", self.expr())
        if k == "has":
            return ("has", self.expr(), self.attrsegs())
        if k == "bin":
            return ("bin", r.choice(_OPS), self.expr(), self.expr())
        if k == "chain":
            return ("chain", r.choice(_CHAIN_OPS), tuple(self.expr() for _ in range(r.randint(3, 5))), r.random() < 0.7)
        if k == "lambda":
            return ("lambda", self.lambda_head(), self.expr())
        if k == "let":
            bs = self.bindings(4)
            if not bs and not self.empty_let:
                bs = (("bind", (("name", self.plain_name()),), self.leaf()),)
            return ("let", bs, self.expr())
        if k == "letchain":
            # directly nested lets (scope layers): let … in let … in let … in body
            body = self.expr()
            for _ in range(r.randint(2, 4)):
                bs = self.bindings(2)
                if not bs:
                    bs = (("bind", (("name", self.plain_name()),), self.leaf()),)
                body = ("let", bs, body)
            return body
        if k == "with":
            return ("with", self.expr(), self.expr())
        if k == "assert":
            return ("assert", self.expr(), self.expr())
        if k == "if":
            return ("if", self.expr(), self.expr(), self.expr())
        if k == "str":
            return ("str", self.string_parts(False))
        if k == "istr":
            return ("istr", self.string_parts(True))
        if k == "ipath":
            return ("path", r.choice(["./d/${", "../${", "/a/${", "~/h/${"]) + "x" + "}" + r.choice(["", "/f", ".nix", "/g/${y}"]))
        raise AssertionError(k)


_COMPOUND = ["paren", "list", "set", "set", "select", "app", "app", "neg", "not", "has", "bin", "bin", "bin", "chain", "lambda", "lambda", "let", "letchain", "with", "assert", "if", "str", "istr", "ipath"]
_OPS = sorted(BINOPS)
_CHAIN_OPS = ["++", "//", "+", "&&", "||", "->", "*", "-"]


def _seg_key(seg):
    if seg[0] == "name":
        return seg[1]
    if seg[0] == "qname":
        return "".join(p[1] for p in seg[1])
    return repr(seg)


def _dedupe_bindings(items):
    """Keep binding heads distinct so that the program is not a duplicate-attribute error
    (attrpath families sharing a first segment are kept: a.b / a.c)."""
    seen_plain = set()
    seen_family = {}
    out = []
    for it in items:
        if it[0] == "bind":
            segs = it[1]
            head = _seg_key(segs[0])
            full = tuple(_seg_key(s) for s in segs)
            if len(segs) == 1:
                if head in seen_plain or head in seen_family:
                    continue
                seen_plain.add(head)
            else:
                if head in seen_plain:
                    continue
                fam = seen_family.setdefault(head, set())
                if any(full[: len(o)] == o or o[: len(full)] == full for o in fam):
                    continue
                fam.add(full)
            out.append(it)
        else:
            names = []
            for nm in it[2]:
                k = _seg_key(nm)
                if k in seen_plain or k in seen_family:
                    continue
                seen_plain.add(k)
                names.append(nm)
            if names:
                out.append(("inherit", it[1], tuple(names)))
    return tuple(out)


SIZES = [3, 6, 12, 25, 40]


def program(seed: int, include_uri: bool = False, empty_let: bool = True, merge_pairs: bool = True):
    """Deterministic program for a seed: returns (ast, text, broken)."""
    r = random.Random(seed ^ 0x5BD1E995)
    budget = r.choice(SIZES)
    broken = r.random() < 0.5
    g = Gen(seed, budget, include_uri, empty_let, merge_pairs)
    ast = g.expr()
    text = render(ast, broken)
    if not broken and any(len(ln) > 200 for ln in text.split("\n")):
        broken = True
        text = render(ast, True)
    return ast, text, broken


def walk(ast):
    stack = [ast]
    while stack:
        n = stack.pop()
        if isinstance(n, tuple):
            if n and isinstance(n[0], str) and n[0] in _KINDS:
                yield n
            stack.extend(n)


_KINDS = {
    "int", "float", "id", "str", "istr", "path", "uri", "paren", "set", "list", "select", "app", "neg", "not", "has", "bin", "chain",
    "lambda", "let", "with", "assert", "if", "bind", "inherit", "interp", "dyn", "qname", "formals", "ident",
}


def productions(ast) -> set[str]:
    return {n[0] for n in walk(ast)}


def depth(ast) -> int:
    if not isinstance(ast, tuple):
        return 0
    own = 1 if ast and isinstance(ast[0], str) and ast[0] in _KINDS else 0
    return own + max((depth(c) for c in ast if isinstance(c, tuple)), default=0)
