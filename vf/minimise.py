"""Deterministic structural minimisation of generated ASTs (vf.gen.grammar tuples)."""

from __future__ import annotations

_EXPR_KINDS = {
    "int", "float", "id", "str", "istr", "path", "uri", "paren", "set", "list", "select", "app", "neg", "not", "has", "bin", "chain",
    "lambda", "let", "with", "assert", "if",
}

_LEAF = ("id", "x")


def _is_expr(n) -> bool:
    return isinstance(n, tuple) and bool(n) and isinstance(n[0], str) and n[0] in _EXPR_KINDS


def _paths(ast, path=()):
    """All (path, node) pairs of tuple nodes, parents before children."""
    out = [(path, ast)]
    if isinstance(ast, tuple):
        for i, c in enumerate(ast):
            if isinstance(c, tuple):
                out.extend(_paths(c, path + (i,)))
    return out


def _replace(ast, path, new):
    if not path:
        return new
    i = path[0]
    return ast[:i] + (_replace(ast[i], path[1:], new),) + ast[i + 1 :]


def _expr_children(n):
    out = []

    def rec(x, top):
        if _is_expr(x) and not top:
            out.append(x)
            return
        if isinstance(x, tuple):
            for c in x:
                rec(c, False)

    rec(n, True)
    return out


def _is_item_seq(n) -> bool:
    """tuple of bindings / list items / formals / string parts / segments (a droppable sequence)."""
    return isinstance(n, tuple) and len(n) > 0 and all(isinstance(c, tuple) for c in n) and not (isinstance(n[0], str))


def candidates(ast):
    """Yield smaller variants of ast, biggest reductions first."""
    nodes = _paths(ast)
    # 1. hoist an expression child over its parent expression / replace by leaf
    for path, n in nodes:
        if _is_expr(n):
            if n != _LEAF and n[0] not in ("int", "id"):
                for ch in _expr_children(n):
                    yield _replace(ast, path, ch)
                yield _replace(ast, path, _LEAF)
    # 2. drop one element of a sequence
    for path, n in nodes:
        if _is_item_seq(n):
            min_len = 0
            for i in range(len(n)):
                if len(n) - 1 >= min_len:
                    yield _replace(ast, path, n[:i] + n[i + 1 :])
    # 3. simplify scalars
    for path, n in nodes:
        if isinstance(n, tuple) and n and n[0] == "frag" and len(n[1]) > 1:
            yield _replace(ast, path, ("frag", n[1][: len(n[1]) // 2]))
            yield _replace(ast, path, ("frag", "a"))
        if isinstance(n, tuple) and n and n[0] in ("name",) and n[1] != "a":
            yield _replace(ast, path, ("name", "a"))
        if isinstance(n, tuple) and n and n[0] == "int" and n[1] != "1":
            yield _replace(ast, path, ("int", "1"))


def shrink_ast(ast, still_fails, max_calls: int = 300):
    """Greedy: take the first candidate that still fails, restart; bounded by max_calls."""
    calls = 0
    improved = True
    while improved and calls < max_calls:
        improved = False
        for cand in candidates(ast):
            if calls >= max_calls:
                break
            calls += 1
            try:
                ok = still_fails(cand)
            except Exception:
                ok = False
            if ok:
                ast = cand
                improved = True
                break
    return ast


def ddmin_list(items, still_fails, max_calls: int = 100):
    """Delta debugging: drop halves/quarters first, then single elements, while the failure persists."""
    items = list(items)
    calls = 0
    chunk = len(items) // 2
    while chunk >= 2 and calls < max_calls:
        i = 0
        progressed = False
        while i < len(items) and calls < max_calls and len(items) > 1:
            cand = items[:i] + items[i + chunk :]
            if not cand:
                i += chunk
                continue
            calls += 1
            if still_fails(cand):
                items = cand
                progressed = True
            else:
                i += chunk
        chunk = chunk // 2 if not progressed else min(chunk, len(items) // 2)
    i = 0
    while i < len(items) and calls < max_calls and len(items) > 1:
        cand = items[:i] + items[i + 1 :]
        calls += 1
        if still_fails(cand):
            items = cand
        else:
            i += 1
    return items
