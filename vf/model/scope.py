"""Scoping documents and a reference resolver for Nix lexical scoping (C10, C11).

A document is
    wrapper*  target-set
    wrapper := let-layer | with-env        (outermost first)
    target-set := plain or rec attribute set with bindings
        k = <int> | k = <ref> | k = { nested plain/rec set } | inherit n; | inherit (src) n;
Let layers bind names of a small pool to unique ints, references, or set literals (sources for
`inherit (src)`); with environments are set literals binding pool names to unique ints.

The resolver follows Nix: every enclosing lexical frame (rec set, let layer) is searched innermost
first; only when none binds the name are the enclosing `with` environments consulted, innermost first.
`inherit x;` looks x up in the scope *enclosing* the set/let that contains the inherit.
"""

from __future__ import annotations

import random
from dataclasses import dataclass, field

POOL = ["a", "b", "c", "d"]


class Unbound(Exception):
    pass


class Cycle(Exception):
    pass


@dataclass
class B:
    """One binding of a frame."""

    name: str
    kind: str  # int | ref | set | inherit | inherit_from
    value: object = None  # int | ref name | SetLit | (for inherit_from) source name
    uid: int = 0  # unique id of the binding (identity for C11)


@dataclass
class SetLit:
    bindings: list
    rec: bool = False


@dataclass
class Frame:
    kind: str  # let | with | set
    bindings: list
    rec: bool = False  # for sets
    env_name: str | None = None  # with <identifier>; instead of a literal


@dataclass
class ScopeDoc:
    wrappers: list  # Frames, outermost first (kind let / with)
    target: Frame  # kind set
    base: int = 0
    applied: bool = False  # ({ formals }: target) { args }
    formals: list = field(default_factory=list)  # [(name, default int|None)]
    args: list = field(default_factory=list)  # [(name, int)]


class Gen:
    def __init__(self, seed: int, base: int = 0, *, with_frames=True, inherits=True, rec_sets=True, nested=True, applied=True, chains=True, with_shadowing_let=True, nested_rec=True, dup_layers=True, same_layer_src=True, named_with=True, neutral_wrappers=True):
        self.r = random.Random(seed)
        self.n = base
        self.uid = 0
        self.with_frames = with_frames
        self.inherits = inherits
        self.rec_sets = rec_sets
        self.nested = nested
        self.applied = applied
        self.chains = chains
        self.with_shadowing_let = with_shadowing_let
        self.nested_rec = nested_rec
        self.dup_layers = dup_layers
        self.same_layer_src = same_layer_src
        self.named_with = named_with
        self.neutral_wrappers = neutral_wrappers

    def fresh(self):
        self.n += 1
        return self.n

    def mk(self, name, kind, value=None):
        self.uid += 1
        return B(name, kind, value, self.uid)

    def let_layer(self):
        r = self.r
        names = r.sample(POOL + ["src"] + (["e"] if self.named_with else []), r.randint(1, 3))
        bs = []
        for nm in names:
            x = r.random()
            if nm in ("src", "e") or x < 0.15:
                lit = SetLit([self.mk(k, "int", self.fresh()) for k in r.sample(POOL, r.randint(1, 2))])
                bs.append(self.mk(nm, "set", lit))
            elif x < 0.45 and self.chains:
                bs.append(self.mk(nm, "ref", r.choice(POOL)))
            else:
                bs.append(self.mk(nm, "int", self.fresh()))
        if self.inherits and r.random() < 0.15:
            nm = r.choice(POOL)
            if all(b.name != nm for b in bs):
                bs.append(self.mk(nm, "inherit"))
        src = next((b for b in bs if b.name == "src" and b.kind == "set"), None)
        if self.inherits and self.same_layer_src and src is not None and r.random() < 0.4:
            # `inherit (src) a;` next to `src = { a = …; };` in the same (recursive) let layer
            nm = r.choice(src.value.bindings).name
            if all(b.name != nm for b in bs):
                bs.insert(r.randrange(len(bs) + 1), self.mk(nm, "inherit_from", "src"))
        return Frame("let", bs)

    def copy_layer(self, fr):
        """A let layer with the same names and values as *fr* (fresh identities): textually identical content."""
        def cp(b):
            v = b.value
            if isinstance(v, SetLit):
                v = SetLit([cp(x) for x in v.bindings], v.rec)
            return self.mk(b.name, b.kind, v)

        return Frame("let", [cp(b) for b in fr.bindings])

    def with_env(self):
        r = self.r
        bs = [self.mk(k, "int", self.fresh()) for k in r.sample(POOL, r.randint(1, 3))]
        return Frame("with", bs)

    def set_frame(self, depth, top=True):
        r = self.r
        rec = self.rec_sets and r.random() < 0.4 and (top or self.nested_rec)
        bs = []
        used = set()
        if rec and self.inherits and self.same_layer_src and r.random() < 0.2:
            bs.append(self.mk("src", "set", SetLit([self.mk(k, "int", self.fresh()) for k in r.sample(POOL, r.randint(1, 2))])))
        # probes: k0.. refs; plus pool-named bindings (relevant for rec shadowing)
        for i in range(r.randint(1, 4)):
            x = r.random()
            if x < 0.6:
                bs.append(self.mk(f"k{i}", "ref", r.choice(POOL)))
            elif x < 0.75 and self.nested and depth > 0:
                sub = self.set_frame(depth - 1, top=False)
                bs.append(self.mk(f"k{i}", "set", SetLit(sub.bindings, sub.rec)))
            elif x < 0.85 and self.inherits:
                nm = r.choice(POOL)
                if nm not in used:
                    used.add(nm)
                    bs.append(self.mk(nm, "inherit"))
            elif x < 0.93 and self.inherits:
                nm = r.choice(POOL)
                if nm not in used:
                    used.add(nm)
                    bs.append(self.mk(nm, "inherit_from", "src"))
            elif rec:
                # pool-named plain bindings only in rec sets: a sibling of a *non-rec* set is not in scope
                # for Nix, and what a reference to it should do is left undefined by the property
                nm = r.choice(POOL)
                if nm not in used:
                    used.add(nm)
                    if r.random() < 0.5 and self.chains:
                        bs.append(self.mk(nm, "ref", r.choice([p for p in POOL if p != nm])))
                    else:
                        bs.append(self.mk(nm, "int", self.fresh()))
        return Frame("set", bs, rec=rec)

    def doc(self) -> ScopeDoc:
        r = self.r
        wrappers = []
        for _ in range(r.choice([0, 1, 1, 2, 2, 3, 4])):
            lets = [w for w in wrappers if w.kind == "let"]
            if self.with_frames and r.random() < 0.3:
                if self.named_with and lets and r.random() < 0.4:
                    # `with e;` — the environment is a name that an enclosing let binds to a set literal
                    if not any(b.name == "e" for w in lets for b in w.bindings):
                        r.choice(lets).bindings.append(self.mk("e", "set", SetLit([self.mk(k, "int", self.fresh()) for k in r.sample(POOL, r.randint(1, 3))])))
                    wrappers.append(Frame("with", [], env_name="e"))
                else:
                    wrappers.append(self.with_env())
            elif self.dup_layers and lets and r.random() < 0.15:
                wrappers.append(self.copy_layer(r.choice(lets)))
            else:
                wrappers.append(self.let_layer())
        if self.neutral_wrappers and wrappers and r.random() < 0.3:
            # constructs that bind none of the pool names, between the layers: `x:`, `assert true;`, parentheses
            for _ in range(r.randint(1, 2)):
                wrappers.insert(r.randrange(len(wrappers) + 1), Frame(r.choice(["lambda", "assert", "paren"]), []))
        if not self.with_shadowing_let:
            # keep every with frame outside all let layers... and unbound in lets: drop with frames whose names are let-bound
            let_names = {b.name for w in wrappers if w.kind == "let" for b in w.bindings}
            for w in wrappers:
                if w.kind == "with":
                    w.bindings = [b for b in w.bindings if b.name not in let_names]
            wrappers = [w for w in wrappers if w.kind != "with" or w.bindings]  # (also drops `with e;` frames)
        target = self.set_frame(2)
        d = ScopeDoc(wrappers, target)
        if self.applied and r.random() < 0.12:
            d.applied = True
            d.wrappers = []
            names = r.sample(POOL, r.randint(1, 3))
            for nm in names:
                quoted = r.random() < 0.3  # the call site may spell the attribute `"a" = …;`
                if r.random() < 0.5:
                    d.formals.append((nm, None))
                    d.args.append((nm, self.fresh(), quoted))
                else:
                    dflt = self.fresh()
                    d.formals.append((nm, dflt))
                    if r.random() < 0.5:
                        d.args.append((nm, self.fresh(), quoted))
        return d


# ---------------------------------------------------------------------------
# printing


INHERIT_COMMENTS = True


def _print_bindings(bs, ind, out):
    pad = " " * ind
    for b in bs:
        if b.kind == "int":
            out.append(f"{pad}{b.name} = {b.value};")
        elif b.kind == "ref":
            out.append(f"{pad}{b.name} = {b.value};")
        elif b.kind == "inherit":
            note = "/* n */ " if INHERIT_COMMENTS and b.uid % 4 == 1 else ""
            out.append(f"{pad}inherit {note}{b.name};")
        elif b.kind == "inherit_from":
            # now and then a quoted name listed in front of the referenced one (uid-derived, stable per document),
            # or a comment in front of the referenced name
            decoy = '"x-y" ' if b.uid % 3 == 0 else ""
            if INHERIT_COMMENTS and b.uid % 4 == 1:
                out.append(f"{pad}inherit ({b.value}) {decoy}")
                out.append(f"{pad}  # note")
                out.append(f"{pad}  {b.name};")
            elif INHERIT_COMMENTS and b.uid % 4 == 2:
                out.append(f"{pad}inherit ({b.value}) {decoy}/* n */ {b.name};")
            else:
                out.append(f"{pad}inherit ({b.value}) {decoy}{b.name};")
        elif b.kind == "set":
            lit = b.value
            out.append(f"{pad}{b.name} = {'rec ' if lit.rec else ''}{{")
            _print_bindings(lit.bindings, ind + 2, out)
            out.append(f"{pad}}};")


def render(d: ScopeDoc) -> str:
    out = []
    if d.applied:
        formals = ", ".join(n if dv is None else f"{n} ? {dv}" for n, dv in d.formals)
        out.append(f"({{ {formals} }}:")
        out.append(("rec " if d.target.rec else "") + "{")
        _print_bindings(d.target.bindings, 2, out)
        out.append("})")
        out.append("{")
        for n, v, *q in d.args:
            out.append(f'  "{n}" = {v};' if q and q[0] else f"  {n} = {v};")
        out.append("}")
        return "\n".join(out) + "\n"
    for w in d.wrappers:
        if w.kind == "let":
            out.append("let")
            _print_bindings(w.bindings, 2, out)
            out.append("in")
        elif w.kind == "lambda":
            out.append("x0:")
        elif w.kind == "assert":
            out.append("assert true;")
        elif w.kind == "paren":
            out.append("(")
        elif w.env_name:
            out.append(f"with {w.env_name};")
        else:
            out.append("with {")
            _print_bindings(w.bindings, 2, out)
            out.append("};")
    out.append(("rec " if d.target.rec else "") + "{")
    _print_bindings(d.target.bindings, 2, out)
    out.append("}" + ")" * sum(1 for w in d.wrappers if w.kind == "paren"))
    return "\n".join(out) + "\n"


# ---------------------------------------------------------------------------
# resolver


class Resolver:
    """Resolves references of a ScopeDoc.  A *site* is a tuple of frame indexes into self.chain plus a
    flag telling whether the innermost frame itself is visible (False for `inherit x;`)."""

    def __init__(self, d: ScopeDoc):
        self.d = d

    def _chain_for_target_path(self, path_sets):
        """Frames enclosing a binding of the (possibly nested) target set, outermost first."""
        chain = []
        if self.d.applied:
            fb = []
            args = {a[0]: a[1] for a in self.d.args}
            for n, dv in self.d.formals:
                if n in args:
                    fb.append(B(n, "int", args[n], -1))
                elif dv is not None:
                    fb.append(B(n, "int", dv, -1))
                else:
                    fb.append(B(n, "missing", None, -1))
            chain.append(Frame("let", fb))
        else:
            chain.extend(self.d.wrappers)
        chain.extend(path_sets)
        return chain

    def lookup(self, name, chain, skip_innermost=False, seen=None, depth=0):
        """Return (value int, defining binding) following references; raises Unbound / Cycle."""
        seen = seen if seen is not None else set()
        if depth > 200:
            raise Cycle(name)
        frames = list(enumerate(chain))
        if skip_innermost:
            frames = frames[:-1]
        # lexical frames innermost first
        for i, fr in reversed(frames):
            if fr.kind == "with":
                continue
            if fr.kind == "set" and not fr.rec:
                continue
            for b in fr.bindings:
                if b.name == name:
                    return self._follow(b, chain[: i + 1], seen, depth)
        for i, fr in reversed(frames):
            if fr.kind != "with":
                continue
            bindings, inner_chain = fr.bindings, chain[: i + 1]
            if fr.env_name:
                # the environment name is resolved where the `with` stands; an unresolvable environment makes
                # every lookup that reaches it fail
                env, _b = self.lookup_set(fr.env_name, chain[:i], seen, depth + 1)
                bindings = env.bindings
                inner_chain = chain[:i] + [Frame("with", bindings)]
            for b in bindings:
                if b.name == name:
                    return self._follow(b, inner_chain, seen, depth)
        raise Unbound(name)

    def _follow(self, b, chain, seen, depth):
        """chain ends with the frame that holds b."""
        key = (b.uid, id(b))
        if key in seen:
            raise Cycle(b.name)
        seen = seen | {key}
        if b.kind == "int":
            return b.value, b
        if b.kind == "missing":
            raise Unbound(b.name)
        if b.kind == "ref":
            return self.lookup(b.value, chain, False, seen, depth + 1)
        if b.kind == "inherit":
            return self.lookup(b.name, chain, True, seen, depth + 1)
        if b.kind == "inherit_from":
            src_val, src_b = self.lookup_set(b.value, chain, seen, depth + 1)
            for sb in src_val.bindings:
                if sb.name == b.name:
                    return self._follow(sb, chain + [Frame("set", src_val.bindings, rec=src_val.rec)], seen, depth + 1)
            raise Unbound(b.name)
        if b.kind == "set":
            return b.value, b
        raise Unbound(b.name)

    def lookup_set(self, name, chain, seen, depth):
        val, b = self.lookup(name, chain, False, seen, depth)
        if not isinstance(val, SetLit):
            raise Unbound(name + " is not a set")
        return val, b

    def probes(self):
        """[(key path in the target, binding, chain)] for every identifier-valued / inherit binding."""
        out = []

        def walk(frame, path_sets, keys):
            for b in frame.bindings:
                if b.kind in ("ref", "inherit", "inherit_from"):
                    out.append((keys + (b.name,), b, self._chain_for_target_path(path_sets)))
                elif b.kind == "set":
                    sub = Frame("set", b.value.bindings, rec=b.value.rec)
                    walk(sub, path_sets + [sub], keys + (b.name,))

        walk(self.d.target, [self.d.target], ())
        return out

    def expected(self, b, chain):
        """('value', int, defining binding) | ('unbound',) | ('cycle',) | ('set',)"""
        try:
            val, defn = self._follow(b, chain, set(), 0)
        except Unbound:
            return ("unbound",)
        except Cycle:
            return ("cycle",)
        if isinstance(val, SetLit):
            return ("set",)
        return ("value", val, defn)
