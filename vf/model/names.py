"""NameCodec: NPath segment encoding exactly as property C12 states it, independent of nix_manipulator."""

import re

BARE_RE = re.compile(r"[A-Za-z_][A-Za-z0-9_']*\Z")


def needs_quotes(name: str) -> bool:
    return BARE_RE.match(name) is None


def encode_segment(name: str, force_quotes: bool = False) -> str:
    if not force_quotes and not needs_quotes(name):
        return name
    return '"' + name.replace("\\", "\\\\").replace('"', '\\"') + '"'


def encode_path(names, force_quotes=()) -> str:
    return ".".join(encode_segment(n, i in force_quotes) for i, n in enumerate(names))


def nix_quote(name: str) -> str:
    """A Nix string literal for *name* written by a table-driven escaper (used to build documents)."""
    out = []
    i = 0
    while i < len(name):
        ch = name[i]
        if ch == "\\":
            out.append("\\\\")
        elif ch == '"':
            out.append('\\"')
        elif ch == "\n":
            out.append("\\n")
        elif ch == "\r":
            out.append("\\r")
        elif ch == "\t":
            out.append("\\t")
        elif ch == "$" and i + 1 < len(name) and name[i + 1] == "{":
            out.append("\\$")
        else:
            out.append(ch)
        i += 1
    return '"' + "".join(out) + '"'
