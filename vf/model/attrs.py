"""Reference model of `set` / `rm` on an editable document, written from docs/cli.md, README and the
statements of C05/C09.  It reads documents with vf.cst only and never looks at nix_manipulator objects.

An attribute set is an ordered list of entries:
    {"path": (decoded names…), "spell": (raw segment texts…), "val": tokens-tuple | {"set": [entries], "rec": bool}, "inh": None | tokens}
"""

from __future__ import annotations

import re
import copy

from vf import cst
from vf.model import names as N


class Refuse(Exception):
    """The model predicts that the edit is rejected."""

    def __init__(self, exc: str, reason: str):
        super().__init__(f"{exc}:{reason}")
        self.exc = exc  # "KeyError" | "ValueError"
        self.reason = reason


class Unspecified(Exception):
    """The statements do not define this situation (not judged)."""


# ---------------------------------------------------------------------------
# reading


def _conv(items):
    out = []
    for b in items:
        if b.form in ("inherit", "inherit_from"):
            out.append({"path": b.path, "spell": b.spelling, "val": None, "inh": b.value_tokens, "kinds": b.kinds})
        elif b.children is not None:
            rec = b.value_node.type == "rec_attrset_expression"
            out.append({"path": b.path, "spell": b.spelling, "val": {"set": _conv(b.children), "rec": rec}, "inh": None, "kinds": b.kinds})
        else:
            out.append({"path": b.path, "spell": b.spelling, "val": b.value_tokens, "inh": None, "kinds": b.kinds})
    return out


_COMMENT_RE = re.compile(r"#[^\n]*|/\*.*?\*/", re.S)
_BLANK_RE = re.compile(r"\n[ \t]*\n")


def duplicate_names(text: str):
    """Names defined twice in one set / let of a valid text: two plain bindings of one name, or a name that is
    inherited and also the root of a binding (Nix rejects both).  Returns a sorted list; [] when the text is invalid."""
    tree = cst.parse(text)
    if cst.errors(tree):
        return []
    dups = set()
    stack = [tree.root]
    while stack:
        n = stack.pop()
        stack.extend(n.children)
        if n.type not in ("attrset_expression", "rec_attrset_expression", "let_expression"):
            continue
        plain, roots, inherited = [], set(), []
        for b in cst.attr_items(tree, n, recurse=False):
            if b.form in ("inherit", "inherit_from"):
                inherited.append(b.path[0])
            else:
                roots.add(b.path[0])
                if len(b.path) == 1 and "interp" not in b.kinds:
                    plain.append(b.path[0])
        dups.update(x for x in plain if plain.count(x) > 1)
        dups.update(x for x in inherited if x in roots or inherited.count(x) > 1)
    return sorted(dups)


class View:
    """What the independent reader sees in a document."""

    def __init__(self, text: str):
        self.text = text
        self.tree = cst.parse(text)
        self.valid = not cst.errors(self.tree)
        self.core_node, self.let_nodes, self.kinds = (None, [], [])
        self.core = None
        self.layers = []
        if self.valid:
            self.core_node, self.let_nodes, self.kinds = cst.find_target(self.tree)
            if self.core_node is not None:
                self.core = {"set": _conv(cst.attr_items(self.tree, self.core_node)), "rec": self.core_node.type == "rec_attrset_expression"}
                self.layers = [_conv(cst.attr_items(self.tree, ln)) for ln in self.let_nodes]

    def outside_tokens(self):
        """Token keys outside the core set and outside every enclosing let's bindings; let/in keywords dropped."""
        spans = []
        if self.core_node is not None:
            spans.append((self.core_node.start_byte, self.core_node.end_byte))
        for ln in self.let_nodes:
            bs = next((k for k in ln.children if k.type == "binding_set"), None)
            if bs is not None:
                spans.append((bs.start_byte, bs.end_byte))
        out = []
        for t in cst.tokens(self.tree):
            if any(a <= t.start and t.end <= b for a, b in spans):
                continue
            if t.kind in ("let", "in"):
                continue
            out.append(t.key())
        return out

    def after_in_trivia(self):
        """Per enclosing let (outermost first): (comment texts, blank line present) between its `in` and the next token."""
        res = []
        toks = cst.tokens(self.tree)
        for ln in self.let_nodes:
            kw = next((k for k in ln.children if k.type == "in"), None)
            if kw is None:
                res.append(None)
                continue
            nxt = min((t.start for t in toks if t.start >= kw.end_byte), default=len(self.tree.src))
            gap = self.tree.src[kw.end_byte : nxt].decode("utf-8", "replace")
            comments = tuple(c.strip() for c in _COMMENT_RE.findall(gap))
            res.append((comments, bool(_BLANK_RE.search(_COMMENT_RE.sub("", gap)))))
        return res

    def edge_comments(self):
        """(comments in front of the first token of the file, comments behind the last token), as stripped texts."""
        toks = cst.tokens(self.tree)
        if not toks:
            return ((), ())
        first, last = toks[0].start, toks[-1].end
        cs = cst.comments(self.tree)
        return (tuple(c.wording for c in cs if c.end <= first), tuple(c.wording for c in cs if c.start >= last))

    def let_head_comments(self):
        """Per enclosing let (outermost first): the comment that shares the line with the `let` keyword, or None."""
        res = []
        src = self.tree.src
        for ln in self.let_nodes:
            kw = next((k for k in ln.children if k.type == "let"), None)
            if kw is None:
                res.append(None)
                continue
            eol = src.find(b"\n", kw.end_byte)
            rest = src[kw.end_byte : len(src) if eol == -1 else eol].decode("utf-8", "replace").strip()
            res.append(rest if rest.startswith(("#", "/*")) else None)
        return res

    def lets_adjacent(self) -> bool:
        """True when every enclosing let sits directly in front of the core (no other wrapper in between)."""
        # kinds is the wrapper chain from the root to the core; lets adjacent <=> all 'let' entries form the tail
        ks = self.kinds
        i = len(ks)
        while i > 0 and ks[i - 1] == "let":
            i -= 1
        return "let" not in ks[:i]


def value_model(value_text: str):
    """Model of a VALUE argument: nested entries when it is an attribute set literal, else its tokens."""
    tree = cst.parse(value_text)
    tops = cst.top_expressions(tree)
    if tree.root.has_error or len(tops) != 1:
        raise Refuse("ValueError", "bad-value")
    node = tops[0]
    if node.type in ("attrset_expression", "rec_attrset_expression"):
        return {"set": _conv(cst.attr_items(tree, node)), "rec": node.type == "rec_attrset_expression"}
    return cst.node_token_keys(tree, node)


def is_set(e) -> bool:
    return isinstance(e["val"], dict)


# ---------------------------------------------------------------------------
# paths


def parse_path(path: str):
    """Independent NPath reader: returns (depth, [decoded segments]) or raises Refuse(ValueError)."""
    depth = 0
    while depth < len(path) and path[depth] == "@":
        depth += 1
    rest = path[depth:]
    if depth and not rest:
        raise Refuse("ValueError", "scope-without-name")
    if not rest:
        raise Refuse("ValueError", "empty-path")
    segs = []
    buf = []
    i = 0
    quoted = False
    in_q = False
    started = False
    while i < len(rest):
        ch = rest[i]
        if in_q:
            if ch == "\\":
                if i + 1 >= len(rest):
                    raise Refuse("ValueError", "dangling-escape")
                nxt = rest[i + 1]
                buf.append({"n": "\n", "r": "\r", "t": "\t", '"': '"', "\\": "\\"}.get(nxt, "\\" + nxt))
                i += 2
                continue
            if ch == '"':
                in_q = False
                quoted = True
                i += 1
                continue
            buf.append(ch)
            i += 1
            continue
        if ch == ".":
            name = "".join(buf)
            if not quoted and (name == "" or N.needs_quotes(name)):
                raise Refuse("ValueError", "bad-bare-segment")
            segs.append(name)
            buf = []
            quoted = False
            i += 1
            continue
        if ch == '"':
            if buf or quoted:
                raise Refuse("ValueError", "quote-mid-segment")
            in_q = True
            i += 1
            continue
        if quoted:
            raise Refuse("ValueError", "text-after-quote")
        buf.append(ch)
        i += 1
    if in_q:
        raise Refuse("ValueError", "unterminated-quote")
    name = "".join(buf)
    if not quoted and (name == "" or N.needs_quotes(name)):
        raise Refuse("ValueError", "bad-bare-segment")
    segs.append(name)
    return depth, tuple(segs)


# ---------------------------------------------------------------------------
# semantics


def find(entries, S):
    """Exact definition of path S: (container list, index) or None."""
    for i, e in enumerate(entries):
        if e["inh"] is not None:
            continue
        p = e["path"]
        if p == S:
            return entries, i
        if len(p) < len(S) and S[: len(p)] == p and is_set(e):
            r = find(e["val"]["set"], S[len(p) :])
            if r is not None:
                return r
    return None


def is_attrpath_root(entries, S) -> bool:
    return any(e["inh"] is None and len(e["path"]) > len(S) and e["path"][: len(S)] == S for e in entries)


def inherited_names(entries):
    return {e["path"][0] for e in entries if e["inh"] is not None}


def has_dynamic(entries) -> bool:
    for e in entries:
        if any(k == "interp" for k in e.get("kinds", ())):
            return True
        if e["inh"] is None and is_set(e) and has_dynamic(e["val"]["set"]):
            return True
    return False


def _spell(name):
    return N.nix_quote(name) if N.needs_quotes(name) else name


def _new_entry(path, val):
    return {"path": tuple(path), "spell": tuple(_spell(n) for n in path), "val": val, "inh": None, "kinds": ()}


def apply_set(entries, S, val, notes=None):
    """Mutate entries according to `set S val`.  Raises Refuse / Unspecified."""
    notes = notes if notes is not None else []
    if S[0] in inherited_names(entries):
        raise Unspecified("path starts at an inherited name")
    hit = find(entries, S)
    if hit is not None:
        cont, i = hit
        cont[i]["val"] = copy.deepcopy(val)
        notes.append("replace")
        return
    if is_attrpath_root(entries, S):
        raise Refuse("ValueError", "attrpath-root-overwrite")
    cur = entries
    k = 0
    level = 0
    while True:
        rest = S[k:]
        fam = [e for e in cur if e["inh"] is None and len(e["path"]) > 1 and e["path"][0] == rest[0]]
        if fam:
            # extend the family in attrpath form; intermediate explicit sets inside the family are a mix
            for e in fam:
                p = e["path"]
                if len(p) > len(rest) and p[: len(rest)] == rest:
                    # the path names an inner node that exists only through dotted bindings (`a.y2.d = …;`): the same
                    # kind of overwrite as that of an attrpath root
                    raise Refuse("ValueError", "attrpath-root-overwrite")
                if len(p) < len(rest) and rest[: len(p)] == p:
                    if is_set(e):
                        raise Refuse("ValueError", "mixed-explicit-inside-attrpath")
                    raise Refuse("ValueError", "through-leaf")
            cur.append(_new_entry(rest, copy.deepcopy(val)))
            notes.append("extend-family" + ("-nested" if level else ""))
            return
        e = next((x for x in cur if x["inh"] is None and x["path"] == (rest[0],)), None)
        if e is None:
            if rest[0] in inherited_names(cur):
                raise Unspecified("path crosses an inherited name")
            # create explicit nested sets for the missing part
            v = copy.deepcopy(val)
            for name in reversed(rest[1:]):
                v = {"set": [_new_entry((name,), v)], "rec": False}
            cur.append(_new_entry((rest[0],), v))
            notes.append("append" if len(rest) == 1 else "create-intermediate")
            return
        if len(rest) == 1:
            # exact match would have been found by find(); unreachable
            e["val"] = copy.deepcopy(val)
            return
        if not is_set(e):
            raise Refuse("ValueError", "through-leaf")
        cur = e["val"]["set"]
        k += 1
        level += 1


def apply_rm(entries, S, notes=None):
    notes = notes if notes is not None else []
    if S[0] in inherited_names(entries):
        raise Unspecified("path starts at an inherited name")
    hit = find(entries, S)
    if hit is not None:
        cont, i = hit
        notes.append("rm-attrpath" if len(cont[i]["path"]) > 1 else "rm-plain")
        del cont[i]
        return
    if is_attrpath_root(entries, S):
        raise Refuse("KeyError", "attrpath-root")
    # why is it missing?
    cur = entries
    k = 0
    while k < len(S) - 1:
        rest = S[k:]
        # family prefix that is a leaf
        for e in cur:
            if e["inh"] is None and len(e["path"]) > 1 and len(e["path"]) < len(rest) and rest[: len(e["path"])] == e["path"] and not is_set(e):
                raise Refuse("ValueError", "through-leaf")
        e = next((x for x in cur if x["inh"] is None and x["path"] == (rest[0],)), None)
        if e is None:
            raise Refuse("KeyError", "missing")
        if not is_set(e):
            raise Refuse("ValueError", "through-leaf")
        cur = e["val"]["set"]
        k += 1
    raise Refuse("KeyError", "missing")


class Model:
    """State of one document: core entries + let layers (outermost first)."""

    def __init__(self, view: View):
        self.core = copy.deepcopy(view.core["set"])
        self.layers = copy.deepcopy(view.layers)

    def apply(self, op, path, value_text=None):
        """Returns a list of notes describing what happened; raises Refuse / Unspecified."""
        notes = []
        depth, S = parse_path(path)
        val = value_model(value_text) if op == "set" else None
        if depth == 0:
            target = self.core
            if op == "set":
                apply_set(target, S, val, notes)
            else:
                apply_rm(target, S, notes)
            return notes
        # scoped
        if depth > len(self.layers):
            if op == "set" and depth == 1 and not self.layers:
                if find(self.core, S) is not None:
                    raise Unspecified("@name without layers where the name exists in the body (code edits the body)")
                layer = []
                apply_set(layer, S, val, notes)
                self.layers.append(layer)
                notes.append("create-layer")
                return notes
            raise Refuse("ValueError", "missing-scope-layer")
        layer = self.layers[-depth]
        if op == "set":
            apply_set(layer, S, val, notes)
        else:
            apply_rm(layer, S, notes)
            if not layer:
                del self.layers[len(self.layers) - depth]
                notes.append("drop-layer")
        notes.append(f"layer-{depth}-of-{len(self.layers)}")
        return notes


# ---------------------------------------------------------------------------
# comparison


def canon(entries):
    """Comparable form: paths, order, inherit marks and value tokens (spelling ignored)."""
    out = []
    for e in entries:
        if e["inh"] is not None:
            out.append(("inh", e["path"], tuple(e["inh"])))
        elif is_set(e):
            out.append(("set", e["path"], e["val"]["rec"], canon(e["val"]["set"])))
        else:
            out.append(("val", e["path"], tuple(tuple(t) for t in e["val"])))
    return tuple(out)


def flat(entries, prefix=()):
    """{full path: canonical value} with duplicates kept in a list (order-insensitive comparison)."""
    res = {}
    for e in entries:
        if e["inh"] is not None:
            res.setdefault(prefix + e["path"], []).append(("inh", tuple(e["inh"])))
        elif is_set(e):
            sub = flat(e["val"]["set"], prefix + e["path"])
            if not sub:
                res.setdefault(prefix + e["path"], []).append(("emptyset",))
            for k, v in sub.items():
                res.setdefault(k, []).extend(v)
        else:
            res.setdefault(prefix + e["path"], []).append(("val", tuple(tuple(t) for t in e["val"])))
    return res


def diff(expected, got):
    """First difference between two canon() tuples, as a short description (None when equal)."""
    if expected == got:
        return None
    for i, (a, b) in enumerate(zip(expected, got)):
        if a != b:
            if a[0] == b[0] == "set" and a[1] == b[1]:
                inner = diff(a[3], b[3])
                return f"in {'.'.join(a[1])}: {inner}"
            return f"entry {i}: expected {_short(a)} got {_short(b)}"
    if len(expected) > len(got):
        return f"missing entry {_short(expected[len(got)])}"
    return f"extra entry {_short(got[len(expected)])}"


def _short(e):
    if e[0] == "val":
        return ".".join(e[1]) + " = " + " ".join(t[1] for t in e[2])[:40]
    if e[0] == "set":
        return ".".join(e[1]) + " = {…%d}" % len(e[3])
    return "inherit " + ".".join(e[1])
