"""Check runner: shards a property's generated-input search over processes,
applies the known-findings protocol, writes evidence and replay files.

usage: python -m vf.runner <ID> [--tier quick|thorough] [--replay FILE] [--seed N]
exit:  0 held / 1 VIOLATION / 2 harness error
"""

from __future__ import annotations

import argparse
import hashlib
import importlib
import json
import multiprocessing as mp
import multiprocessing.connection  # noqa: F401
import os
import re
import sys
import time
import traceback
from collections import Counter

ROOT = os.path.dirname(os.path.dirname(os.path.abspath(__file__)))
FINDINGS_FILE = os.path.join(ROOT, "known_findings.json")


class HarnessError(Exception):
    pass


def case_hash(case) -> str:
    return hashlib.sha1(json.dumps(case, sort_keys=True, ensure_ascii=True, default=str).encode()).hexdigest()[:16]


class Shard:
    """Per-process collector handed to a property's run_shard()."""

    def __init__(self, prop, tier, seed, index, nshards, params, quarantine, wall_limit):
        self.prop = prop
        self.tier = tier
        self.seed = seed
        self.index = index
        self.nshards = nshards
        self.params = params
        self.quarantine = quarantine
        self.hseed = seed * 1000 + index
        self.evaluations = 0
        self.nontrivial: set[str] = set()
        self.classes: Counter = Counter()
        self.refused = 0
        self.excluded = 0
        self.skipped_budget = 0
        self.samples: list = []
        self.failures: dict[str, dict] = {}
        self.fail_counts: Counter = Counter()
        self.notes: Counter = Counter()
        self._t0 = time.monotonic()
        self._wall_limit = wall_limit
        self.budget_hit = False
        self.current = None

    def now(self, n: int):
        """Publish the generator seed under evaluation (read by the parent if this process dies)."""
        if self.current is not None:
            self.current.value = n

    # -- budget
    def over_budget(self) -> bool:
        if self.budget_hit:
            return True
        if time.monotonic() - self._t0 > self._wall_limit:
            self.budget_hit = True
        return self.budget_hit

    # -- recording
    def record(self, case, nontrivial: bool, classes=(), refused: bool = False):
        self.evaluations += 1
        if refused:
            self.refused += 1
        for c in classes:
            self.classes[c] += 1
        if nontrivial:
            h = case_hash(case)
            if h not in self.nontrivial:
                self.nontrivial.add(h)
                if len(self.samples) < 3 or (len(self.samples) < 6 and self.evaluations % 97 == 0):
                    self.samples.append(case)

    def fail(self, sig: str, case, detail):
        """Record an oracle failure under signature *sig* (keeps the smallest case per signature)."""
        self.fail_counts[sig] += 1
        size = len(json.dumps(case, default=str))
        cur = self.failures.get(sig)
        if cur is None or size < cur["size"]:
            self.failures[sig] = {"sig": sig, "case": case, "detail": detail, "size": size, "shard": self.index}

    def result(self):
        return {
            "index": self.index,
            "evaluations": self.evaluations,
            "nontrivial": list(self.nontrivial),
            "classes": dict(self.classes),
            "refused": self.refused,
            "excluded": self.excluded,
            "skipped_budget": self.skipped_budget,
            "samples": self.samples,
            "failures": self.failures,
            "fail_counts": dict(self.fail_counts),
            "notes": dict(self.notes),
            "budget_hit": self.budget_hit,
            "wall": time.monotonic() - self._t0,
        }


def _shard_entry(args, conn, current):
    prop_id, tier, seed, index, nshards, params, quarantine, wall_limit = args
    try:
        mod = importlib.import_module(f"vf.props.{prop_id.lower()}")
        sh = Shard(prop_id, tier, seed, index, nshards, params, quarantine, wall_limit)
        sh.current = current
        mod.run_shard(sh)
        conn.send(("ok", sh.result()))
    except BaseException:  # noqa: BLE001
        conn.send(("error", {"index": index, "trace": traceback.format_exc()}))
    finally:
        conn.close()


def run_shards(jobs, max_procs):
    """Run shard jobs in forked processes; a worker that dies (signal, os._exit) is reported, never waited for."""
    ctx = mp.get_context("fork")
    pending = list(jobs)
    running = {}
    results, errors = [], []
    while pending or running:
        while pending and len(running) < max_procs:
            job = pending.pop(0)
            parent_conn, child_conn = ctx.Pipe(duplex=False)
            current = ctx.Value("q", -1, lock=False)
            proc = ctx.Process(target=_shard_entry, args=(job, child_conn, current))
            proc.start()
            child_conn.close()
            running[proc.sentinel] = (proc, parent_conn, job, current)
        ready = mp.connection.wait([v[1] for v in running.values()] + list(running.keys()), timeout=1.0)
        for key in list(running.keys()):
            proc, conn, job, current = running[key]
            got = None
            if conn in ready or conn.poll():
                try:
                    got = conn.recv()
                except (EOFError, OSError):
                    got = None
            if got is not None:
                status, res = got
                (results if status == "ok" else errors).append(res)
                proc.join()
                conn.close()
                del running[key]
            elif not proc.is_alive():
                proc.join()
                if conn.poll():
                    try:
                        status, res = conn.recv()
                        (results if status == "ok" else errors).append(res)
                        conn.close()
                        del running[key]
                        continue
                    except (EOFError, OSError):
                        pass
                errors.append({"index": job[3], "trace": f"shard process died with exit code {proc.exitcode} while evaluating generator seed {current.value}"})
                conn.close()
                del running[key]
    return results, errors


# ---------------------------------------------------------------------------
# known findings


def load_findings():
    if not os.path.exists(FINDINGS_FILE):
        return []
    with open(FINDINGS_FILE) as fh:
        return json.load(fh).get("findings", [])


def findings_for(prop_id):
    """(finding, property entry) pairs for prop_id.  An entry may list further properties that share
    the same generator/oracle engine under "also": the entry (quarantine, signatures, replay) then
    applies to them too."""
    out = []
    for f in load_findings():
        props = f.get("properties", {})
        entry = props.get(prop_id)
        if entry is not None:
            entry = dict(entry, _primary=prop_id)
        else:
            for other_id, other in props.items():
                if prop_id in other.get("also", []):
                    entry = dict(other, _primary=other_id)
                    break
        if entry is not None:
            out.append((f, entry))
    return out


def quarantine_for(prop_id):
    """Generator exclusions of the open findings: inline `quarantine` items of known_findings.json plus the
    committed table quarantine/<ID>.json (one row per (gap label, trivia family) pair, each naming its finding)."""
    q = []
    open_ids = set()
    for f, entry in findings_for(prop_id):
        if f.get("status") == "open":
            open_ids.add(f["id"])
            for item in entry.get("quarantine", []):
                q.append(dict(item, finding=f["id"]))
    table = os.path.join(ROOT, "quarantine", f"{prop_id}.json")
    if os.path.exists(table):
        with open(table) as fh:
            doc = json.load(fh)
        for row in doc.get("entries", []):
            if row.get("finding") in open_ids and row.get("by", "label") == "label":
                q.append({"label": re.escape(row["label"]), "families": [row["family"]], "finding": row["finding"]})
            elif row.get("finding") in open_ids and row.get("by") == "family":
                q.append({"family": row["family"], "finding": row["finding"]})
    return q


def match_known(prop_id, sig):
    for f, entry in findings_for(prop_id):
        if f.get("status") != "open":
            continue
        for pat in entry.get("signatures", []):
            if re.fullmatch(pat, sig):
                return f["id"]
    return None


# ---------------------------------------------------------------------------


def _truncate(obj, limit=600):
    if isinstance(obj, str):
        return obj if len(obj) <= limit else obj[:limit] + f"…(+{len(obj) - limit})"
    if isinstance(obj, dict):
        return {k: _truncate(v, limit) for k, v in obj.items()}
    if isinstance(obj, (list, tuple)):
        return [_truncate(v, limit) for v in list(obj)[:40]]
    return obj


def write_evidence(path, doc):
    os.makedirs(os.path.dirname(path), exist_ok=True)
    tmp = path + ".tmp"
    with open(tmp, "w") as fh:
        json.dump(doc, fh, indent=1, ensure_ascii=False, default=str)
        fh.write("\n")
    os.replace(tmp, path)


def run_replay_case(mod, case):
    """Evaluate one plain-data case with the property's oracle -> list of (sig, detail)."""
    return mod.replay(case)


def main(argv=None):
    ap = argparse.ArgumentParser()
    ap.add_argument("prop")
    ap.add_argument("--tier", default=os.environ.get("VERIF_TIER", "quick"))
    ap.add_argument("--replay")
    ap.add_argument("--seed", type=int, default=None)
    ap.add_argument("--shards", type=int, default=None)
    ap.add_argument("--scale", type=float, default=1.0, help="multiply example counts (development aid)")
    ap.add_argument("--no-evidence", action="store_true")
    ap.add_argument("--out", default=None, help="write evidence/ and replays/ under this directory instead of /verif (mutant drills)")
    ap.add_argument("--discover", action="store_true", help="development: print every failure signature, write nothing")
    args = ap.parse_args(argv)
    prop_id = args.prop.upper()
    out_root = os.path.abspath(args.out) if args.out else ROOT
    tier = args.tier if args.tier in ("quick", "thorough") else "quick"
    try:
        seed = args.seed if args.seed is not None else int(os.environ.get("VERIF_SEED", "1") or "1")
    except ValueError:
        seed = 1
    seed = abs(seed) % (2**31)
    t0 = time.time()
    try:
        from vf import nima  # noqa: F401  (fails loudly if the tree under test does not import)

        mod = importlib.import_module(f"vf.props.{prop_id.lower()}")
    except Exception:
        traceback.print_exc()
        print(f"HARNESS-ERROR property={prop_id} cannot import tree under test or property module")
        return 2

    # ---- replay mode
    if args.replay:
        with open(args.replay) as fh:
            doc = json.load(fh)
        case = doc.get("case", doc)
        try:
            fails = run_replay_case(mod, case)
        except Exception:
            traceback.print_exc()
            return 2
        if fails:
            for sig, detail in fails:
                print(f"replay failure sig={sig} detail={json.dumps(_truncate(detail), default=str)[:2000]}")
            print(f"VIOLATION property={prop_id} replay={args.replay}")
            return 1
        print(f"replay passes: property={prop_id} {args.replay}")
        return 0

    # ---- self tests of the oracle substrate
    try:
        if hasattr(mod, "self_test"):
            mod.self_test()
    except Exception:
        traceback.print_exc()
        print(f"HARNESS-ERROR property={prop_id} oracle self-test failed")
        return 2

    violations = []  # (sig, replay path)
    known_lines = []
    known_not_reproduced = []
    # ---- known findings: replay each
    for f, entry in findings_for(prop_id):
        rp = entry.get("replay")
        if not rp:
            continue
        rpath = os.path.join(ROOT, rp)
        try:
            with open(rpath) as fh:
                rdoc = json.load(fh)
            # a finding shared through "also" is replayed with the oracle of the property it is recorded under
            rmod = mod if entry.get("_primary", prop_id) == prop_id else importlib.import_module(f"vf.props.{entry['_primary'].lower()}")
            fails = run_replay_case(rmod, rdoc.get("case", rdoc))
        except Exception:
            traceback.print_exc()
            print(f"HARNESS-ERROR property={prop_id} cannot evaluate replay {rp}")
            return 2
        if f.get("status") == "open":
            if fails:
                known_lines.append(f"KNOWN-FINDING: property={prop_id} {f['id']} {entry.get('what_fails', f.get('title', ''))}")
            else:
                known_not_reproduced.append(f["id"])
        else:  # fixed: plain regression case
            if fails:
                violations.append((f"regression:{f['id']}:" + fails[0][0], rp))

    # ---- sharded search
    plan = mod.plan(tier)
    nshards = args.shards or plan.get("shards", 16)
    params = dict(plan)
    params["scale"] = args.scale
    wall_limit = plan.get("wall_limit", 600 if tier == "quick" else 3600)
    quarantine = quarantine_for(prop_id)
    jobs = [(prop_id, tier, seed, i, nshards, params, quarantine, wall_limit) for i in range(nshards)]
    results, errors = run_shards(jobs, min(nshards, int(os.environ.get("VERIF_PROCS", "16"))))
    if errors:
        for e in errors:
            print(f"shard {e['index']} crashed:\n{e['trace']}")
        print(f"HARNESS-ERROR property={prop_id} {len(errors)} shard(s) crashed")
        return 2
    results.sort(key=lambda r: r["index"])

    evaluations = sum(r["evaluations"] for r in results)
    nontrivial = set()
    classes = Counter()
    notes = Counter()
    samples = []
    fail_counts = Counter()
    buckets: dict[str, dict] = {}
    for r in results:
        nontrivial.update(r["nontrivial"])
        classes.update(r["classes"])
        notes.update(r["notes"])
        fail_counts.update(r["fail_counts"])
        for s in r["samples"]:
            if len(samples) < 8:
                samples.append(_truncate(s))
        for sig, fl in r["failures"].items():
            cur = buckets.get(sig)
            if cur is None or fl["size"] < cur["size"]:
                buckets[sig] = fl

    if args.discover:
        for sig in sorted(buckets, key=lambda k: -fail_counts[k]):
            fl = buckets[sig]
            fid = match_known(prop_id, sig)
            print(f"[{fail_counts[sig]:5d}] {'KNOWN ' + fid if fid else 'NEW'} {sig}")
            print("        case:", json.dumps(_truncate(fl["case"].get("text", fl["case"]), 300), ensure_ascii=False)[:400])
            print("        detail:", json.dumps(_truncate(fl["detail"], 200), ensure_ascii=False, default=str)[:500])
        print(f"evaluations={evaluations} nontrivial={len(nontrivial)} notes={dict(notes)}")
        return 0
    known_hits = Counter()
    for sig in sorted(buckets):
        fl = buckets[sig]
        fid = match_known(prop_id, sig)
        if fid is not None:
            known_hits[fid] += fail_counts[sig]
            continue
        case = fl["case"]
        if hasattr(mod, "minimise"):
            try:
                case = mod.minimise(case, sig)
            except Exception:
                traceback.print_exc()
        h = hashlib.sha1(sig.encode()).hexdigest()[:10]
        rel = os.path.join("replays", f"{prop_id}-{h}.json")
        os.makedirs(os.path.join(out_root, "replays"), exist_ok=True)
        with open(os.path.join(out_root, rel), "w") as fh:
            json.dump(
                {"property": prop_id, "sig": sig, "case": case, "detail": _truncate(fl["detail"], 4000), "seed": seed, "shard": fl["shard"], "tier": tier, "occurrences": fail_counts[sig]},
                fh,
                indent=1,
                ensure_ascii=False,
                default=str,
            )
            fh.write("\n")
        violations.append((sig, rel))

    for line in known_lines:
        print(line)
    wall = time.time() - t0
    budget_hit = any(r["budget_hit"] for r in results)
    coverage = {
        "evaluations": evaluations,
        "distinct_nontrivial": len(nontrivial),
        "rule": getattr(mod, "RULE", ""),
        "samples": samples,
        "classes": dict(sorted(classes.items(), key=lambda kv: (-kv[1], kv[0]))[:120]),
        "class_count": len(classes),
        "refused": sum(r["refused"] for r in results),
        "excluded_by_quarantine": sum(r["excluded"] for r in results),
        "skipped_after_budget": sum(r["skipped_budget"] for r in results),
        "budget_reached": budget_hit,
        "shards": nshards,
        "known_findings_confirmed": [ln.split(" ", 3)[2] for ln in known_lines],
        "known_not_reproduced": known_not_reproduced,
        "known_signature_hits": dict(known_hits),
        "notes": dict(notes),
        "violation_signatures": [v[0] for v in violations][:50],
        "exhaustive": bool(plan.get("exhaustive", False)),
    }
    if hasattr(mod, "extra_coverage"):
        try:
            coverage.update(mod.extra_coverage(tier, results))
        except Exception:
            traceback.print_exc()
    doc = {
        "property_id": prop_id,
        "tier": tier,
        "seed": seed,
        "level": getattr(mod, "LEVEL", "exploration"),
        "coverage": coverage,
        "assumptions": list(getattr(mod, "ASSUMPTIONS", [])),
        "wall_s": round(wall, 2),
        "violations": len(violations),
    }
    if not args.no_evidence:
        write_evidence(os.path.join(out_root, "evidence", f"{prop_id}.json"), doc)
    print(
        f"{prop_id} tier={tier} seed={seed} evaluations={evaluations} distinct_nontrivial={len(nontrivial)} "
        f"refused={coverage['refused']} excluded={coverage['excluded_by_quarantine']} known_hits={sum(known_hits.values())} "
        f"violations={len(violations)} wall={wall:.1f}s{' BUDGET-REACHED' if budget_hit else ''}"
    )
    if evaluations == 0 or len(nontrivial) < 2:
        print(f"HARNESS-ERROR property={prop_id} generator produced no non-trivial cases")
        return 2
    if violations:
        for sig, rel in violations:
            print(f"  signature: {sig}")
            print(f"VIOLATION property={prop_id} replay={rel}")
        return 1
    return 0


if __name__ == "__main__":
    try:
        rc = main()
    except SystemExit:
        raise
    except BaseException:  # noqa: BLE001
        traceback.print_exc()
        rc = 2
    sys.exit(rc)
