"""Self-tests of the oracle substrate (run by setup.sh); exit 1 on failure."""
import sys
from vf import cst

def main():
    t = cst.parse('# h\n{ a.b."c d" = "x${y}\\n"; /* k */ inherit (z) q; f = {a ? 1, ...}@args: a; }\n')
    assert cst.valid(t)
    assert len(cst.comments(t)) == 2
    assert cst.valid("{ a, b, }: a") and not cst.strictly_valid("{ a, b, }: a")
    assert not cst.valid("{ a = ; }") and not cst.valid("{ a, , }: a")
    assert cst.norm_token_keys("let in {a,\n}: 007") == cst.norm_token_keys("{a}: 7")
    gaps = cst.code_gaps(t)
    src = t.src
    covered = sum(g.end - g.start for g in gaps)
    assert covered > 0
    from vf.gen import grammar as G
    bad = 0
    for s in range(2000):
        _a, txt, _b = G.program(s)
        if not cst.strictly_valid(txt):
            bad += 1
    assert bad <= 20, f"generator invalid rate too high: {bad}/2000"
    print("selftest ok")

if __name__ == "__main__":
    try:
        main()
    except Exception:
        import traceback; traceback.print_exc(); sys.exit(1)
