"""Independent CST reader built directly on tree_sitter + tree_sitter_nix.

Shares no code with nix_manipulator.  Everything the oracles need to know about
a piece of Nix text (is it valid, what are its code tokens, where are its
comments, what is between the tokens, what bindings does a set hold) is read
here from the grammar's own parse tree.
"""

from __future__ import annotations

import re
import threading
from dataclasses import dataclass

import tree_sitter as _ts
import tree_sitter_nix as _tsn

_LANG = _ts.Language(_tsn.language())
_LOCAL = threading.local()


def _parser():
    p = getattr(_LOCAL, "p", None)
    if p is None:
        p = _ts.Parser(_LANG)
        _LOCAL.p = p
    return p


class Tree:
    """A parsed text: root node plus the full source bytes."""

    __slots__ = ("text", "src", "root", "_tree")

    def __init__(self, text: str):
        self.text = text
        self.src = text.encode("utf-8")
        self._tree = _parser().parse(self.src)
        self.root = self._tree.root_node

    def s(self, node) -> str:
        return self.src[node.start_byte : node.end_byte].decode("utf-8", "replace")


def parse(text: str) -> Tree:
    return Tree(text)


MAX_LINES = 250
MAX_COLS = 250


def env_ok(text: str) -> bool:
    """Environment limit: py-tree-sitter 0.26.0 returns a borrowed reference from Point.row /
    Point.column for values > 256 (heap corruption, segfaults).  nix_manipulator reads
    start_point/end_point everywhere, so every text handed to it must stay below 257 lines
    and 257 bytes per line.  (vf.cst itself never touches Point objects.)"""
    if text.count("\n") >= MAX_LINES:
        return False
    return all(len(ln.encode("utf-8")) < MAX_COLS for ln in text.split("\n"))


# ---------------------------------------------------------------------------
# validity


def _error_nodes(node, out):
    """Collect minimal error witnesses: ERROR nodes and MISSING leaves."""
    if node.type == "ERROR" or node.is_missing:
        out.append(node)
        return
    if not node.has_error:
        return
    for ch in node.children:
        _error_nodes(ch, out)


def _is_trailing_formals_comma(node) -> bool:
    """MISSING identifier inside an empty `formal` right after the last `,` of a `formals`.

    tree-sitter-nix 0.1.0 rejects `{ a, b, }:` although Nix accepts it and the
    property list names the added trailing comma as an allowed normalisation.
    """
    if node.type == "ERROR":
        # second shape: the comma itself is wrapped in an ERROR node inside the formals
        kids = node.children
        par = node.parent
        if len(kids) != 1 or kids[0].type != "," or par is None or par.type != "formals":
            return False
        sibs = [k for k in par.children if k.type != "comment"]
        idx = next((i for i, k in enumerate(sibs) if k.id == node.id), None)
        if idx is None or idx == 0 or idx + 1 >= len(sibs):
            return False
        return sibs[idx - 1].type in ("formal", "ellipses") and sibs[idx + 1].type == "}" and sibs[idx - 1].type == "formal"
    if not (node.is_missing and node.type == "identifier"):
        return False
    formal = node.parent
    if formal is None or formal.type != "formal" or formal.child_count != 1:
        return False
    formals = formal.parent
    if formals is None or formals.type != "formals":
        return False
    kids = [k for k in formals.children if k.type != "comment"]
    idx = next((i for i, k in enumerate(kids) if k.id == formal.id), None)
    if idx is None or idx == 0 or idx + 1 >= len(kids):
        return False
    return kids[idx - 1].type == "," and kids[idx + 1].type == "}"


def errors(tree: Tree, tolerate_formals_comma: bool = True):
    if not tree.root.has_error:
        return []
    out = []
    _error_nodes(tree.root, out)
    if tolerate_formals_comma:
        out = [n for n in out if not _is_trailing_formals_comma(n)]
    return out


def valid(text_or_tree, tolerate_formals_comma: bool = True) -> bool:
    tree = text_or_tree if isinstance(text_or_tree, Tree) else parse(text_or_tree)
    return not errors(tree, tolerate_formals_comma)


def strictly_valid(text_or_tree) -> bool:
    tree = text_or_tree if isinstance(text_or_tree, Tree) else parse(text_or_tree)
    return not tree.root.has_error


# ---------------------------------------------------------------------------
# leaves / tokens / comments

_STR_PARTS = {"string_fragment", "escape_sequence", "dollar_escape"}
_STRING_NODES = {"string_expression", "indented_string_expression"}
KEYWORDS = {"let", "in", "with", "assert", "if", "then", "else", "rec", "inherit", "or"}
PUNCT = {";", ",", "=", ":", "@", "(", ")", "[", "]", "{", "}", "${", '"', "''", "."}


def leaves(tree: Tree):
    """All leaves in source order (comments included, zero-width/MISSING dropped)."""
    out = []
    stack = [tree.root]
    while stack:
        n = stack.pop()
        if n.child_count == 0:
            if n.end_byte > n.start_byte and not n.is_missing:
                out.append(n)
            continue
        stack.extend(reversed(n.children))
    return out


@dataclass(frozen=True)
class Tok:
    kind: str  # tree-sitter leaf type, or "str" for merged string content
    text: str
    start: int
    end: int
    in_string: bool = False  # content of a string / path (not code)

    def key(self):
        return (self.kind, self.text)


def _in_string_content(node) -> bool:
    return node.type in _STR_PARTS or node.type == "path_fragment"


def tokens(tree_or_text, with_comments: bool = False):
    """Code tokens in order.  Adjacent string content leaves are merged."""
    tree = tree_or_text if isinstance(tree_or_text, Tree) else parse(tree_or_text)
    out: list[Tok] = []
    for n in leaves(tree):
        t = n.type
        if t == "comment":
            if with_comments:
                out.append(Tok("comment", tree.s(n), n.start_byte, n.end_byte))
            continue
        if t in _STR_PARTS:
            if out and out[-1].kind == "str" and out[-1].end == n.start_byte:
                prev = out[-1]
                out[-1] = Tok("str", prev.text + tree.s(n), prev.start, n.end_byte, True)
            else:
                out.append(Tok("str", tree.s(n), n.start_byte, n.end_byte, True))
            continue
        out.append(Tok(t, tree.s(n), n.start_byte, n.end_byte, t == "path_fragment"))
    return out


def token_keys(tree_or_text):
    return [t.key() for t in tokens(tree_or_text)]


def norm_token_keys(tree_or_text):
    """Token sequence after the three normalisations C01 allows.

    * integer literal -> its int() value
    * adjacent `let` `in` pair (binding-less let) removed
    * a `,` directly before the `}` of a formals list removed
    """
    tree = tree_or_text if isinstance(tree_or_text, Tree) else parse(tree_or_text)
    toks = tokens(tree)
    formals_close = set()
    stack = [tree.root]
    while stack:
        n = stack.pop()
        if n.type == "formals":
            kids = [k for k in n.children if k.type != "comment"]
            if kids and kids[-1].type == "}":
                formals_close.add(kids[-1].start_byte)
        stack.extend(n.children)
    out = []
    i = 0
    while i < len(toks):
        t = toks[i]
        if t.kind == "let" and i + 1 < len(toks) and toks[i + 1].kind == "in":
            i += 2
            continue
        if t.kind == "," and i + 1 < len(toks) and toks[i + 1].start in formals_close and toks[i + 1].kind == "}":
            i += 1
            continue
        if t.kind == "integer_expression":
            try:
                out.append(("integer_expression", str(int(t.text))))
            except ValueError:
                out.append(t.key())
            i += 1
            continue
        out.append(t.key())
        i += 1
    return out


def is_barrier(kind: str) -> bool:
    """Identifier, literal, keyword or operator (C03): everything except punctuation."""
    return kind not in PUNCT and kind != "comment"


@dataclass(frozen=True)
class Com:
    raw: str
    kind: str  # line | block | doc
    wording: str  # normalised wording
    start: int
    end: int
    own_line: bool  # nothing but whitespace before it on its first line
    ends_line: bool  # nothing but whitespace after it on its last line
    barriers_before: int = -1


def _norm_wording(raw: str) -> tuple[str, str]:
    if raw.startswith("#"):
        body = raw[1:]
        return "line", body.strip()
    doc = raw.startswith("/**") and len(raw) > 4
    body = raw[3:] if doc else raw[2:]
    if body.endswith("*/"):
        body = body[:-2]
    lines = [ln.strip() for ln in body.split("\n")]
    # padding inside delimiters and per-line indentation are layout
    while lines and lines[0] == "":
        lines.pop(0)
    while lines and lines[-1] == "":
        lines.pop()
    return ("doc" if doc else "block"), "\n".join(lines)


def comments(tree_or_text):
    tree = tree_or_text if isinstance(tree_or_text, Tree) else parse(tree_or_text)
    src = tree.src
    out = []
    for n in leaves(tree):
        if n.type != "comment":
            continue
        raw = tree.s(n)
        kind, wording = _norm_wording(raw)
        ls = src.rfind(b"\n", 0, n.start_byte) + 1
        own = src[ls : n.start_byte].strip(b" \t\r\f") == b""
        le = src.find(b"\n", n.end_byte)
        if le == -1:
            le = len(src)
        ends = src[n.end_byte : le].strip(b" \t\r\f") == b""
        out.append(Com(raw, kind, wording, n.start_byte, n.end_byte, own, ends))
    return out


def comments_with_barriers(tree_or_text):
    """Comments with the number of barrier tokens of the *normalised* token
    sequence that precede each (C03 position oracle)."""
    tree = tree_or_text if isinstance(tree_or_text, Tree) else parse(tree_or_text)
    toks = tokens(tree)
    formals_close = set()
    stack = [tree.root]
    while stack:
        n = stack.pop()
        if n.type == "formals":
            kids = [k for k in n.children if k.type != "comment"]
            if kids and kids[-1].type == "}":
                formals_close.add(kids[-1].start_byte)
        stack.extend(n.children)
    # positions (byte offsets) of barrier tokens after normalisation
    barrier_pos = []
    i = 0
    while i < len(toks):
        t = toks[i]
        if t.kind == "let" and i + 1 < len(toks) and toks[i + 1].kind == "in":
            i += 2
            continue
        if is_barrier(t.kind):
            barrier_pos.append(t.start)
        i += 1
    out = []
    import bisect

    for c in comments(tree):
        k = bisect.bisect_left(barrier_pos, c.start)
        out.append(Com(c.raw, c.kind, c.wording, c.start, c.end, c.own_line, c.ends_line, k))
    return out


# ---------------------------------------------------------------------------
# gaps


@dataclass(frozen=True)
class Gap:
    index: int
    start: int
    end: int
    label: tuple  # (lca type, left leaf type, right leaf type)
    needs_space: bool  # tokens would merge / change meaning without a separator
    in_interp_of_string: bool
    in_attrpath: bool = False  # inside an attrpath (nima keeps attrpath text raw)
    lca_id: int = 0  # identity of the lowest common ancestor node (construct instance)


def _lca(a, b):
    seen = set()
    n = a
    while n is not None:
        seen.add(n.id)
        n = n.parent
    n = b
    while n is not None:
        if n.id in seen:
            return n
        n = n.parent
    return None


def _inside(node, types) -> bool:
    n = node.parent
    while n is not None:
        if n.type in types:
            return True
        n = n.parent
    return False


def _inside_raw_attrpath(node) -> bool:
    """Inside the attrpath of a select / has-attr expression or of an inherit list (kept raw by nima)."""
    n = node
    while n is not None:
        if n.type == "attrpath" and n.parent is not None and n.parent.type in ("select_expression", "has_attr_expression"):
            return True
        n = n.parent
    return False


def _plain_binding_attrpath_gap(a, b) -> bool:
    """Gap between a segment and a dot of the attrpath of a *binding* (`a . b = 1`), outside any `${}`:
    nima re-splits that text and normalises the spacing, unlike select / has-attr paths which stay raw."""
    if a is None or b is None:
        return False
    pa, pb = a.parent, b.parent
    if a.type in ('"',):
        pa = pa.parent if pa is not None else None
    if b.type in ('"',):
        pb = pb.parent if pb is not None else None
    for p in (pa, pb):
        if p is None or p.type != "attrpath" or p.parent is None or p.parent.type != "binding":
            return False
    return pa.id == pb.id


def _construct_id(node) -> int:
    """Identity of the construct instance a gap belongs to; operator / application chains (nested nodes of the
    same kind, which formatters lay out as one unit) count as one construct."""
    if node is None:
        return 0
    if node.type in ("binary_expression", "apply_expression"):
        t = node.type
        while node.parent is not None and node.parent.type == t:
            node = node.parent
    return node.id


def _inside_attrpath_interp(node) -> bool:
    """True when node sits inside a `${ }` that is a segment of an attrpath (strictly inside the braces
    or being one of the braces' inner neighbours)."""
    n = node
    while n is not None:
        if n.type == "interpolation" and n.parent is not None and n.parent.type in ("attrpath", "inherited_attrs"):
            return True
        n = n.parent
    return False


def _string_ancestor_via_interp(node) -> bool:
    """True when node sits in an interpolation that is itself inside a string/path."""
    n = node
    while n is not None:
        if n.type == "interpolation" and n.parent is not None and n.parent.type in (
            "string_expression",
            "indented_string_expression",
            "path_expression",
            "hpath_expression",
        ):
            return True
        n = n.parent
    return False


def code_gaps(tree_or_text):
    """Inter-token gaps where trivia may legally be placed.

    A gap is the span between two consecutive non-comment leaves (or file start /
    end).  Gaps whose both sides are string/path content or string delimiters are
    excluded (whitespace there is content, not trivia)."""
    tree = tree_or_text if isinstance(tree_or_text, Tree) else parse(tree_or_text)
    lv = [n for n in leaves(tree) if n.type != "comment"]
    tops = [k for k in tree.root.children if k.type != "comment"]
    top_type = tops[0].type if len(tops) == 1 else ("none" if not tops else "multi")
    gaps: list[Gap] = []
    src_len = len(tree.src)
    idx = 0

    def content_side(n, left: bool) -> bool:
        # left=True: n is the left neighbour of the gap
        t = n.type
        if t in _STR_PARTS or t == "path_fragment":
            return True
        p = n.parent
        if p is None:
            return False
        if t in ('"', "''") and p.type in _STRING_NODES:
            # opening delimiter on the left / closing delimiter on the right => gap is inside the string
            first = p.children[0].id == n.id
            return first if left else (not first)
        if t == "}" and p.type == "interpolation" and left:
            # after an interpolation we are back in string/path content
            return p.parent is not None and p.parent.type in (
                "string_expression",
                "indented_string_expression",
                "path_expression",
                "hpath_expression",
            )
        if t == "${" and p.type == "interpolation" and not left:
            return p.parent is not None and p.parent.type in (
                "string_expression",
                "indented_string_expression",
                "path_expression",
                "hpath_expression",
            )
        return False

    prev = None
    for n in lv + [None]:
        start = prev.end_byte if prev is not None else 0
        end = n.start_byte if n is not None else src_len
        skip = False
        if prev is not None and n is not None:
            if content_side(prev, True) or content_side(n, False):
                skip = True
        elif prev is not None and n is None:
            skip = False
        if not skip:
            if prev is None and n is None:
                label = ("source_code", "^", "$")
            elif prev is None:
                label = ("source_code:" + top_type, "^", n.type)
            elif n is None:
                label = ("source_code:" + top_type, prev.type, "$")
            else:
                l = _lca(prev, n)
                lt = l.type if l is not None else "?"
                if lt == "parenthesized_expression":
                    inner = next((k for k in l.children if k.is_named and k.type != "comment"), None)
                    lt += ":" + (inner.type if inner is not None else "?")
                elif lt == "source_code":
                    lt += ":" + top_type
                label = (lt, prev.type, n.type)
            needs = False
            gaps.append(
                Gap(
                    idx,
                    start,
                    end,
                    label,
                    needs,
                    (prev is not None and _string_ancestor_via_interp(prev))
                    or (n is not None and _string_ancestor_via_interp(n)),
                    (
                        (prev is not None and n is not None and _inside(prev, ("attrpath",)) and _inside(n, ("attrpath",)))
                        or (prev is not None and _inside_attrpath_interp(prev))
                        or (n is not None and _inside_attrpath_interp(n))
                    )
                    and not (
                        _plain_binding_attrpath_gap(prev, n)
                        and not _inside_attrpath_interp(prev)
                        and not _inside_attrpath_interp(n)
                        and not _inside_raw_attrpath(prev)
                    ),
                    _construct_id(_lca(prev, n)) if prev is not None and n is not None else 0,
                )
            )
            idx += 1
        prev = n
    return gaps


# ---------------------------------------------------------------------------
# Nix string decoding (independent of nix_manipulator)


def decode_string_node(tree: Tree, node):
    """Decode a string_expression node to (value, has_interpolation)."""
    assert node.type == "string_expression", node.type
    out = []
    interp = False
    for ch in node.children:
        t = ch.type
        if t == '"':
            continue
        raw = tree.s(ch)
        if t == "string_fragment":
            out.append(raw)
        elif t == "escape_sequence":
            c = raw[1:]
            out.append({"n": "\n", "r": "\r", "t": "\t"}.get(c, c))
        elif t == "dollar_escape":
            # `$$` is not an escape in "..." strings for Nix; tree-sitter tags `\$`?  keep raw minus backslash
            out.append(raw[1:] if raw.startswith("\\") else raw)
        elif t == "interpolation":
            interp = True
            out.append("${…}")
        else:
            out.append(raw)
    return "".join(out), interp


def attr_name(tree: Tree, node):
    """Decode one attrpath segment node -> (decoded name, spelling, kind)."""
    t = node.type
    raw = tree.s(node)
    if t == "identifier":
        return raw, raw, "bare"
    if t == "string_expression":
        val, interp = decode_string_node(tree, node)
        return val, raw, ("interp" if interp else "quoted")
    if t == "interpolation":
        return raw, raw, "interp"
    return raw, raw, t


# ---------------------------------------------------------------------------
# attribute trees


@dataclass
class AttrBinding:
    path: tuple  # decoded names
    spelling: tuple  # raw segment texts
    kinds: tuple
    value_node: object  # tree-sitter node of the value (None for inherit)
    value_tokens: tuple
    form: str  # plain | attrpath | inherit | inherit_from
    node: object
    children: list | None = None  # for values that are (rec) attrsets


def _binding_items(container):
    """binding / inherit / inherit_from nodes directly inside a set or let."""
    items = []
    for ch in container.children:
        if ch.type == "binding_set":
            items.extend(k for k in ch.children if k.type in ("binding", "inherit", "inherit_from"))
        elif ch.type in ("binding", "inherit", "inherit_from"):
            items.append(ch)
    return items


def node_token_keys(tree: Tree, node):
    lo, hi = node.start_byte, node.end_byte
    return tuple(t.key() for t in tokens(tree) if lo <= t.start and t.end <= hi)


def strip_parens(node):
    while node is not None and node.type == "parenthesized_expression":
        inner = [k for k in node.children if k.type not in ("(", ")", "comment")]
        if len(inner) != 1:
            break
        node = inner[0]
    return node


def attr_items(tree: Tree, container, recurse: bool = True):
    """Ordered list of AttrBinding for a set / let node (attrpaths NOT merged)."""
    all_toks = tokens(tree)

    def vtoks(n):
        lo, hi = n.start_byte, n.end_byte
        return tuple(t.key() for t in all_toks if lo <= t.start and t.end <= hi)

    def walk(cont):
        res = []
        for it in _binding_items(cont):
            if it.type == "binding":
                ap = next(k for k in it.children if k.type == "attrpath")
                segs = [k for k in ap.children if k.type != "." and k.type != "comment"]
                dec = [attr_name(tree, s) for s in segs]
                val = next(
                    (k for k in it.children if k.type not in ("attrpath", "=", ";", "comment")),
                    None,
                )
                kids = None
                if recurse and val is not None and val.type in ("attrset_expression", "rec_attrset_expression"):
                    kids = walk(val)
                res.append(
                    AttrBinding(
                        tuple(d[0] for d in dec),
                        tuple(d[1] for d in dec),
                        tuple(d[2] for d in dec),
                        val,
                        vtoks(val) if val is not None else (),
                        "plain" if len(dec) == 1 else "attrpath",
                        it,
                        kids,
                    )
                )
            else:
                attrs = next((k for k in it.children if k.type == "inherited_attrs"), None)
                names = [] if attrs is None else [k for k in attrs.children if k.type != "comment"]
                for nm in names:
                    d = attr_name(tree, nm)
                    res.append(AttrBinding((d[0],), (d[1],), (d[2],), None, vtoks(it), it.type, it, None))
        return res

    return walk(container)


def flat_paths(items, prefix=()):
    """Expand AttrBinding list into {full decoded path: [value token tuples]} (duplicates kept)."""
    out: dict = {}

    def add(path, val):
        out.setdefault(path, []).append(val)

    def walk(its, pre):
        for b in its:
            p = pre + b.path
            if b.children is not None:
                if not b.children:
                    add(p, b.value_tokens)
                walk(b.children, p)
            else:
                add(p, b.value_tokens if b.form in ("plain", "attrpath") else ("<inherit>",) + b.value_tokens)

    walk(items, prefix)
    return out


# ---------------------------------------------------------------------------
# locating the editable target set and its let layers (syntactic, independent)


def top_expressions(tree: Tree):
    return [k for k in tree.root.children if k.type != "comment"]


def _child_expr(node, skip=()):
    return [k for k in node.children if k.is_named and k.type != "comment" and k.type not in skip]


def find_target(tree: Tree, follow_names: bool = True):
    """Walk wrappers syntactically down to the attribute set an edit addresses.

    Returns (set node or None, [let nodes enclosing it, outermost first], wrapper kinds).
    Follows: function body, let body, with body, assert body, parentheses, last
    call argument, and a name that an enclosing let binds to a set literal (then no let counts as a
    layer of the target: scope selectors are not modelled for such documents)."""
    tops = top_expressions(tree)
    if len(tops) != 1:
        return None, [], []
    node = tops[0]
    lets = []
    kinds = []
    while True:
        t = node.type
        if t in ("attrset_expression", "rec_attrset_expression"):
            return node, lets, kinds
        if t == "function_expression":
            kinds.append("lambda")
            node = node.children[-1]
        elif t == "let_expression":
            kinds.append("let")
            lets.append(node)
            node = node.children[-1]
        elif t == "with_expression":
            kinds.append("with")
            node = node.children[-1]
        elif t == "assert_expression":
            kinds.append("assert")
            node = node.children[-1]
        elif t == "parenthesized_expression":
            kinds.append("paren")
            inner = [k for k in node.children if k.type not in ("(", ")", "comment")]
            if len(inner) != 1:
                return None, lets, kinds
            node = inner[0]
        elif t == "apply_expression":
            kinds.append("call")
            node = node.children[-1]
        elif t == "variable_expression" and follow_names:
            # a name bound by an enclosing let to a set literal (possibly through another such name): Nix designates
            # the innermost enclosing let that binds it; anything else (formals, with, inherit) is not followed
            name = tree.s(node)
            target = None
            visible = len(lets)
            for hop in range(4):
                found = None
                for li in range(visible - 1, -1, -1):
                    ln = lets[li]
                    for b in _binding_items(ln):
                        if b.type != "binding":
                            continue
                        ap = next(k for k in b.children if k.type == "attrpath")
                        segs = [k for k in ap.children if k.type not in (".", "comment")]
                        if len(segs) == 1 and segs[0].type == "identifier" and tree.s(segs[0]) == name:
                            found = next((k for k in b.children if k.type not in ("attrpath", "=", ";", "comment")), None)
                            break
                    if found is not None:
                        visible = li + 1  # the value is read in the scope of its own layer
                        break
                if found is None:
                    break
                if found.type in ("attrset_expression", "rec_attrset_expression"):
                    target = found
                    break
                if found.type != "variable_expression":
                    break
                name = tree.s(found)
            if target is None:
                return None, lets, kinds
            kinds.append("alias")
            return target, [], kinds
        else:
            return None, lets, kinds


# ---------------------------------------------------------------------------
# CST -> Python data (C13)


class NotData(Exception):
    pass


def to_data(tree: Tree, node):
    node = strip_parens(node)
    t = node.type
    if t == "integer_expression":
        return int(tree.s(node))
    if t == "float_expression":
        return float(tree.s(node))
    if t == "unary_expression":
        op = node.children[0].type
        inner = to_data(tree, [k for k in node.children if k.type != "comment"][-1])
        if op == "-" and isinstance(inner, (int, float)) and not isinstance(inner, bool):
            return -inner
        raise NotData(f"unary {op}")
    if t == "variable_expression":
        s = tree.s(node)
        if s == "true":
            return True
        if s == "false":
            return False
        if s == "null":
            return None
        raise NotData(f"identifier {s}")
    if t == "string_expression":
        val, interp = decode_string_node(tree, node)
        if interp:
            raise NotData("interpolation")
        return val
    if t == "list_expression":
        return [to_data(tree, k) for k in node.children if k.is_named and k.type != "comment"]
    if t in ("attrset_expression", "rec_attrset_expression"):
        out = {}
        for it in _binding_items(node):
            if it.type != "binding":
                raise NotData("inherit")
            ap = next(k for k in it.children if k.type == "attrpath")
            segs = [k for k in ap.children if k.type not in (".", "comment")]
            names = []
            for s in segs:
                nm, _sp, kind = attr_name(tree, s)
                if kind == "interp":
                    raise NotData("interp key")
                names.append(nm)
            val = next(k for k in it.children if k.type not in ("attrpath", "=", ";", "comment"))
            cur = out
            for nm in names[:-1]:
                cur = cur.setdefault(nm, {})
                if not isinstance(cur, dict):
                    raise NotData("conflict")
            if names[-1] in cur:
                raise NotData(f"duplicate key {names[-1]}")
            cur[names[-1]] = to_data(tree, val)
        return out
    raise NotData(t)
