"""Per-evaluation wall-clock guard (SIGALRM) so that a pathological input cannot stall a shard.

A guard that fires is reported by the caller as 'timeout' (inconclusive), never as a violation by itself."""

from __future__ import annotations

import signal
from contextlib import contextmanager


class EvalTimeout(Exception):
    pass


def _raise(signum, frame):
    raise EvalTimeout()


@contextmanager
def time_limit(seconds: float):
    old = signal.signal(signal.SIGALRM, _raise)
    signal.setitimer(signal.ITIMER_REAL, seconds)
    try:
        yield
    finally:
        signal.setitimer(signal.ITIMER_REAL, 0)
        signal.signal(signal.SIGALRM, old)
