let
  a = 1;
in
{ b = a; # c
}
